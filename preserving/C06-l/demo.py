import sys, os

sys.path.insert(0, os.getcwd())
import contextlib
import io
import itertools
import warnings

import matplotlib

matplotlib.use("Agg")
import numpy as np
import pandas as pd
from scipy.spatial.transform import Rotation as srot

from cryocat import geom
from cryocat.exceptions import UserInputError

assert os.path.abspath(geom.__file__).startswith(os.getcwd()), geom.__file__

FAILS = []
NCHECK = [0]
TOL = 1e-4  # degrees; 2*acos(|q1.q2|) and acos(n1.n2) carry ~2e-6 deg of rounding near 0 / 180


def check(cond, msg):
    NCHECK[0] += 1
    if not bool(cond):
        FAILS.append(msg)
        if len(FAILS) <= 25:
            print("FAIL:", msg)


# --------------------------------------------------------------------------------------------------------------
# independent SO(3) ground truth: plain matrices, no scipy, no cryocat
# --------------------------------------------------------------------------------------------------------------
def _rz(a):
    a = np.radians(np.asarray(a, dtype=float))
    c, s = np.cos(a), np.sin(a)
    m = np.zeros(a.shape + (3, 3))
    m[..., 0, 0], m[..., 0, 1], m[..., 1, 0], m[..., 1, 1], m[..., 2, 2] = c, -s, s, c, 1.0
    return m


def _rx(a):
    a = np.radians(np.asarray(a, dtype=float))
    c, s = np.cos(a), np.sin(a)
    m = np.zeros(a.shape + (3, 3))
    m[..., 1, 1], m[..., 1, 2], m[..., 2, 1], m[..., 2, 2], m[..., 0, 0] = c, -s, s, c, 1.0
    return m


def mat_zxz(angles):
    """(n,3) Euler angles (phi, theta, psi) in degrees -> (n,3,3): R = Rz(psi) Rx(theta) Rz(phi)."""
    a = np.atleast_2d(np.asarray(angles, dtype=float))
    return _rz(a[:, 2]) @ _rx(a[:, 1]) @ _rz(a[:, 0])


def gt_angle(ra, rb):
    """rotation angle (degrees) of ra^T rb, by atan2 (well conditioned everywhere)."""
    r = np.swapaxes(ra, -1, -2) @ rb
    v = np.stack([r[..., 2, 1] - r[..., 1, 2], r[..., 0, 2] - r[..., 2, 0], r[..., 1, 0] - r[..., 0, 1]], axis=-1)
    s = 0.5 * np.linalg.norm(v, axis=-1)
    c = 0.5 * (np.trace(r, axis1=-2, axis2=-1) - 1.0)
    return np.degrees(np.arctan2(s, c))


def gt_vec_angle(u, v):
    return np.degrees(np.arctan2(np.linalg.norm(np.cross(u, v), axis=-1), np.sum(u * v, axis=-1)))


def random_matrices(rng, n):
    """uniform random rotations from a QR decomposition (independent of Euler angles)."""
    q, r = np.linalg.qr(rng.normal(size=(n, 3, 3)))
    q = q * np.sign(np.diagonal(r, axis1=-2, axis2=-1))[:, None, :]
    q[:, :, 2] *= np.linalg.det(q)[:, None]
    return q


def cube_rotations():
    mats = []
    for perm in itertools.permutations(range(3)):
        for signs in itertools.product([1.0, -1.0], repeat=3):
            m = np.zeros((3, 3))
            for i in range(3):
                m[i, perm[i]] = signs[i]
            if np.linalg.det(m) > 0:
                mats.append(m)
    assert len(mats) == 24
    return np.array(mats)


def as_rot(mats):
    return srot.from_matrix(mats)


# --------------------------------------------------------------------------------------------------------------
# the property
# --------------------------------------------------------------------------------------------------------------
def check_pairs(tag, in1, in2, m1, m2):
    """in1/in2: what is handed to cryocat (Euler arrays or Rotation objects); m1/m2: their ground-truth matrices."""
    n = m1.shape[0]
    want = gt_angle(m1, m2)
    for rep in range(2):  # repeated calls on the same objects
        res = geom.angular_distance(in1, in2)
        check(isinstance(res, tuple) and len(res) == 2, f"{tag}: angular_distance returns (angle, dist)")
        ang = res[0]
        check(ang.shape == (n,), f"{tag}: angle shape {ang.shape} != ({n},)")
        check(ang.dtype == np.float64, f"{tag}: angle dtype {ang.dtype}")
        check(np.all((ang >= 0.0) & (ang <= 180.0)), f"{tag}: angular distance outside [0,180]")
        check(np.allclose(ang, want, rtol=0, atol=TOL), f"{tag}: angular distance != rotation angle of R1^T R2, "
              f"max dev {np.max(np.abs(ang - want)) if n else 0}")
        back = geom.angular_distance(in2, in1)[0]
        check(np.allclose(ang, back, rtol=0, atol=1e-9), f"{tag}: angular distance not symmetric")

        cone = geom.cone_distance(as_rot(m1), as_rot(m2))
        cwant = gt_vec_angle(m1[:, :, 2], m2[:, :, 2])
        check(cone.shape == (n,), f"{tag}: cone shape {cone.shape}")
        check(np.allclose(cone, cwant, rtol=0, atol=TOL), f"{tag}: cone distance != angle between z-axes")
        cone2, inpl = geom.cone_inplane_distance(in1, in2)
        check(np.allclose(cone2, cwant, rtol=0, atol=TOL), f"{tag}: cone_inplane_distance cone part wrong")
        check(inpl.shape == (n,), f"{tag}: inplane shape {inpl.shape}")
        check(np.all((inpl >= 0.0) & (inpl <= 180.0)), f"{tag}: in-plane distance outside [0,180]")
        inpl2 = geom.inplane_distance(as_rot(m1), as_rot(m2))
        check(np.all((inpl2 >= 0.0) & (inpl2 <= 180.0)), f"{tag}: inplane_distance outside [0,180]")

        allr = geom.compare_rotations(in1, in2)
        check(isinstance(allr, tuple) and len(allr) == 3, f"{tag}: compare_rotations 'all' is a triple")
        check(np.array_equal(allr[0], ang) and np.array_equal(allr[1], cone2) and np.array_equal(allr[2], inpl),
              f"{tag}: compare_rotations triple != (angular, cone, inplane)")
        for name, ref in (("angular_distance", ang), ("cone_distance", cone2), ("in_plane_distance", inpl)):
            got = geom.compare_rotations(in1, in2, rotation_type=name)
            check(isinstance(got, np.ndarray) and np.array_equal(got, ref), f"{tag}: compare_rotations {name}")

    # zero exactly for equal rotations
    same = geom.angular_distance(in1, in1)[0]
    check(np.all(same <= 1e-5), f"{tag}: d(a,a) != 0 (max {same.max() if n else 0})")
    c0, i0 = geom.cone_inplane_distance(in1, in1)
    check(np.all(c0 <= 1e-5), f"{tag}: cone(a,a) != 0")
    check(np.all(i0 == 0.0), f"{tag}: inplane(a,a) != 0")
    zero_pairs = want < 1e-7
    check(np.all(ang[zero_pairs] <= 1e-5) and np.all(ang[want > 1e-3] > 0), f"{tag}: zero iff equal rotations")


def check_invariance_and_triangle(tag, rng, m1, m2):
    n = m1.shape[0]
    base = geom.angular_distance(as_rot(m1), as_rot(m2))[0]
    g = random_matrices(rng, n)
    left = geom.angular_distance(as_rot(g @ m1), as_rot(g @ m2))[0]
    right = geom.angular_distance(as_rot(m1 @ g), as_rot(m2 @ g))[0]
    check(np.allclose(left, base, rtol=0, atol=TOL), f"{tag}: not invariant under common left rotation")
    check(np.allclose(right, base, rtol=0, atol=TOL), f"{tag}: not invariant under common right rotation")
    one = random_matrices(rng, 1)  # a single common rotation broadcast over the batch
    left1 = geom.angular_distance(as_rot(one @ m1), as_rot(one @ m2))[0]
    check(np.allclose(left1, base, rtol=0, atol=TOL), f"{tag}: not invariant under one common rotation")
    m3 = random_matrices(rng, n)
    d13 = geom.angular_distance(as_rot(m1), as_rot(m3))[0]
    d32 = geom.angular_distance(as_rot(m3), as_rot(m2))[0]
    check(np.all(base <= d13 + d32 + TOL), f"{tag}: triangle inequality violated")


def check_distance_matrix(tag, mats, inputs=None):
    """all pairs of a finite set; triangle inequality over all triples of the resulting matrix."""
    n = mats.shape[0]
    ii, jj = np.meshgrid(np.arange(n), np.arange(n), indexing="ij")
    ii, jj = ii.ravel(), jj.ravel()
    if inputs is None:
        d = geom.angular_distance(as_rot(mats[ii]), as_rot(mats[jj]))[0]
    else:
        d = geom.angular_distance(inputs[ii], inputs[jj])[0]
    want = gt_angle(mats[ii], mats[jj])
    check(np.allclose(d, want, rtol=0, atol=TOL), f"{tag}: all-pairs angular distance != ground truth")
    dm = d.reshape(n, n)
    check(np.allclose(dm, dm.T, rtol=0, atol=1e-9), f"{tag}: distance matrix not symmetric")
    check(np.all(np.diag(dm) <= 1e-5), f"{tag}: diagonal not zero")
    check(np.all((dm >= 0) & (dm <= 180.0)), f"{tag}: range")
    if n <= 64:
        tri = dm[:, None, :] <= dm[:, :, None] + dm[None, :, :] + TOL  # d(i,k) <= d(i,j) + d(j,k)
        check(np.all(tri), f"{tag}: triangle inequality over all triples")
    else:
        rng = np.random.default_rng(5)
        t = rng.integers(0, n, size=(200000, 3))
        check(np.all(dm[t[:, 0], t[:, 2]] <= dm[t[:, 0], t[:, 1]] + dm[t[:, 1], t[:, 2]] + TOL),
              f"{tag}: triangle inequality over sampled triples")
    return dm


def check_normals(tag, angles):
    """euler_angles_to_normals: one unit vector per orientation, the image of the z-axis."""
    a2 = np.atleast_2d(np.asarray(angles, dtype=float))
    want = mat_zxz(a2)[:, :, 2]
    for rep in range(2):
        got = geom.euler_angles_to_normals(angles)
        check(got.shape == want.shape, f"{tag}: normals shape {got.shape} != {want.shape}")
        check(np.allclose(np.linalg.norm(got, axis=1), 1.0, rtol=0, atol=1e-12), f"{tag}: normals not unit length")
        check(np.allclose(got, want, rtol=0, atol=1e-12), f"{tag}: normals != R e_z")
    vis = geom.visualize_angles(angles, plot_rotations=False)
    check(np.allclose(vis, want, rtol=0, atol=1e-12), f"{tag}: visualize_angles != R e_z")
    vis2 = geom.visualize_rotations(srot.from_euler("zxz", a2, degrees=True), plot_rotations=False, radius=2.5)
    check(np.allclose(vis2, 2.5 * want, rtol=0, atol=1e-12), f"{tag}: visualize_rotations != radius * R e_z")


def check_normals_to_angles(tag, normals, as_frame=False, index=None):
    nrm = np.asarray(normals, dtype=float)
    want = nrm / np.linalg.norm(nrm, axis=1, keepdims=True)
    if as_frame:
        arg = pd.DataFrame({"z": nrm[:, 2], "x": nrm[:, 0], "extra": 7.0, "y": nrm[:, 1]}, index=index)
    else:
        arg = normals
    for order in ("zxz", "zzx", None):
        for rep in range(2):
            ang = geom.normals_to_euler_angles(arg) if order is None else geom.normals_to_euler_angles(arg, output_order=order)
            check(ang.shape == (nrm.shape[0], 3), f"{tag}/{order}: angles shape {ang.shape}")
            zxz = ang[:, [0, 2, 1]] if order == "zzx" else ang
            check(np.all((zxz[:, 0] >= 0) & (zxz[:, 0] < 360)), f"{tag}/{order}: phi outside [0,360)")
            zaxis = mat_zxz(zxz)[:, :, 2]
            check(np.allclose(zaxis, want, rtol=0, atol=1e-12), f"{tag}/{order}: z-axis of the result != normalised normal")
            # and back through the library
            if nrm.shape[0]:
                check(np.allclose(geom.euler_angles_to_normals(zxz), want, rtol=0, atol=1e-12), f"{tag}/{order}: round trip")


def lattice_45():
    g = np.array(list(itertools.product(np.arange(0, 360, 45.0), np.arange(0, 181, 45.0), np.arange(0, 360, 45.0))))
    return g


def run_property():
    rng = np.random.default_rng(20240611)

    # batches of 1..500 random orientations, Euler arrays (with negative and > 360 values) and Rotation objects
    for n in (1, 2, 3, 7, 64, 499, 500):
        e1 = rng.uniform(-360, 720, size=(n, 3))
        e2 = rng.uniform(-360, 720, size=(n, 3))
        check_pairs(f"random euler n={n}", e1, e2, mat_zxz(e1), mat_zxz(e2))
        ma, mb = random_matrices(rng, n), random_matrices(rng, n)
        check_pairs(f"random matrices n={n}", as_rot(ma), as_rot(mb), ma, mb)
        check_pairs(f"mixed n={n}", e1, as_rot(mb), mat_zxz(e1), mb)
        check_invariance_and_triangle(f"random n={n}", rng, ma, mb)
        check_normals(f"normals n={n}", e1)
    # a single orientation given as a 1-D triple
    e1, e2 = np.array([10.0, 20.0, 30.0]), np.array([-40.0, 170.0, 400.0])
    check_pairs("single 1-D triple", e1, e2, mat_zxz(e1), mat_zxz(e2))
    check_normals("single 1-D triple", e1)
    check_normals("integer angles", np.array([[0, 0, 0], [90, 90, 90], [45, 180, 270], [0, 180, 0]]))

    # near-identical
    base = rng.uniform(0, 360, size=(200, 3))
    for eps in (0.0, 1e-9, 1e-6, 1e-3, 0.5):
        pert = base + eps * rng.normal(size=base.shape)
        check_pairs(f"near-identical eps={eps}", base, pert, mat_zxz(base), mat_zxz(pert))
    ma = random_matrices(rng, 200)
    for eps in (1e-8, 1e-5, 1e-2):
        mb = ma @ mat_zxz(eps * rng.normal(size=(200, 3)))
        check_pairs(f"near-identical matrices eps={eps}", as_rot(ma), as_rot(mb), ma, mb)
        check_invariance_and_triangle(f"near-identical eps={eps}", rng, ma, mb)

    # antipodal: relative rotation of exactly 180 degrees (three different axes), and nearly 180
    for k, off in enumerate(([180.0, 0, 0], [0, 180.0, 0], [0, 0, 180.0])):
        other = base + np.array(off)
        check_pairs(f"antipodal {k}", base, other, mat_zxz(base), mat_zxz(other))
        check(np.allclose(geom.angular_distance(base, other)[0], 180.0, atol=TOL), f"antipodal {k}: not 180")
        other = other + 1e-6 * rng.normal(size=base.shape)
        check_pairs(f"nearly antipodal {k}", base, other, mat_zxz(base), mat_zxz(other))
    axes = rng.normal(size=(200, 3))
    axes /= np.linalg.norm(axes, axis=1, keepdims=True)
    half = 2.0 * axes[:, :, None] * axes[:, None, :] - np.eye(3)  # rotation by 180 degrees about 'axes'
    check_pairs("antipodal random axis", as_rot(ma), as_rot(ma @ half), ma, ma @ half)
    check_invariance_and_triangle("antipodal random axis", rng, ma, ma @ half)

    # gimbal lock: theta in {0, 180}
    for t1, t2 in itertools.product((0.0, 180.0), repeat=2):
        g1, g2 = rng.uniform(-180, 180, size=(100, 3)), rng.uniform(-180, 180, size=(100, 3))
        g1[:, 1], g2[:, 1] = t1, t2
        check_pairs(f"gimbal {t1}/{t2}", g1, g2, mat_zxz(g1), mat_zxz(g2))
        check_normals(f"gimbal {t1}", g1)
    g1 = np.array([[0.0, 0, 0], [0, 180, 0], [90, 0, -90], [180, 180, 180], [360, 0, 0], [0, 0, 360]])
    check_pairs("poles literal", g1, g1[::-1].copy(), mat_zxz(g1), mat_zxz(g1[::-1]))

    # the 24 cube rotations: all pairs, all triples
    cube = cube_rotations()
    dm = check_distance_matrix("cube", cube)
    check(set(np.round(dm.ravel()).astype(int)) == {0, 90, 120, 180}, "cube: distances are 0/90/120/180")
    ii, jj = [x.ravel() for x in np.meshgrid(np.arange(24), np.arange(24), indexing="ij")]
    check_pairs("cube pairs", as_rot(cube[ii]), as_rot(cube[jj]), cube[ii], cube[jj])
    check_invariance_and_triangle("cube pairs", rng, cube[ii], cube[jj])

    # Euler lattice in 45-degree steps: all pairs (Euler arrays as input)
    lat = lattice_45()
    check_distance_matrix("lattice45", mat_zxz(lat), inputs=lat)
    sel = rng.integers(0, lat.shape[0], size=(500, 2))
    check_pairs("lattice45 pairs", lat[sel[:, 0]], lat[sel[:, 1]], mat_zxz(lat[sel[:, 0]]), mat_zxz(lat[sel[:, 1]]))
    for k in range(0, lat.shape[0], 97):
        check_normals(f"lattice45 batch {k}", lat[k : k + 97])
    check_normals("lattice45", lat)

    # unsupported rotation type is rejected (after the distances were computed)
    for bad in ("ALL", "", "inplane", None, 0):
        try:
            geom.compare_rotations(base, base, rotation_type=bad)
            check(False, f"compare_rotations accepted rotation_type={bad!r}")
        except UserInputError as err:
            check(str(bad) in str(err), "message names the rejected type")

    # normals -> Euler angles
    for n in (1, 2, 5, 500):
        v = rng.normal(size=(n, 3)) * rng.uniform(1e-3, 1e3, size=(n, 1))
        check_normals_to_angles(f"random normals n={n}", v)
        check_normals_to_angles(f"random normals frame n={n}", v, as_frame=True, index=np.arange(n)[::-1] * 3 + 5)
    axis = np.array([[1.0, 0, 0], [-1, 0, 0], [0, 1, 0], [0, -1, 0], [0, 0, 1], [0, 0, -1],
                     [0, 0, 5e-3], [0, 0, -7e3], [2, 0, 0], [0, -0.25, 0], [1, 1, 0], [0, 1, 1], [1, 0, -1],
                     [-0.0, 0.0, 1.0], [0.0, -0.0, -1.0], [1e-300, 0, 1], [0, 1e-200, -1]])
    check_normals_to_angles("axis-aligned", axis)
    check_normals_to_angles("axis-aligned frame", axis, as_frame=True, index=list("abcdefghijklmnopq"))
    check_normals_to_angles("only +z", np.array([[0.0, 0.0, 1.0]]))
    check_normals_to_angles("only -z", np.array([[0.0, 0.0, -1.0]]))
    check_normals_to_angles("all on the z-axis", np.array([[0.0, 0, 1], [0, 0, -1], [0, 0, 2], [0, 0, -3]]))
    check_normals_to_angles("none on the z-axis", np.array([[1.0, 0, 1], [0, 2, -1], [3, 3, 2]]))
    check_normals_to_angles("integer normals", np.array([[0, 0, 1], [0, 0, -1], [1, 0, 0], [3, 4, 0], [1, 2, 2]]))
    check_normals_to_angles("empty", np.zeros((0, 3)))
    try:
        geom.normals_to_euler_angles([[0.0, 0.0, 1.0]])
        check(False, "a list of normals was accepted")
    except UserInputError:
        pass


# --------------------------------------------------------------------------------------------------------------
# change b: convention="zxz" -> convention=None + "if convention is None: convention = 'zxz'" in
# inplane_distance, cone_inplane_distance, angular_distance.  Original text of the three functions kept here.
# --------------------------------------------------------------------------------------------------------------
ORIGINAL = r'''
def inplane_distance(input_rot1, input_rot2, convention="zxz", degrees=True, c_symmetry=1):
    """Compute the angular distance between inplane-rotation portion of two given rotations.

    Parameters
    ----------
    input_rot1 : scipy.spatial.transform.Rotation object
        Rotation object describing orientation of particle.
    input_rot2 : scipy.spatial.transform.Rotation object
        Rotation object describing orientation of particle.
    convention : str, optional
        Euler angle convention. Defaults to "zxz".
    degrees : bool, optional
        Return angular distance in degrees (True) or radians (False). Defaults to True.
    c_symmetry : int, optional
        Rotational symmetry of underlying particles. Defaults to 1.

    Returns
    -------
    float
        Angular distance between inplane rotations.
    """
    phi1 = np.array(input_rot1.as_euler(convention, degrees=degrees), ndmin=2)[:, 0]
    phi2 = np.array(input_rot2.as_euler(convention, degrees=degrees), ndmin=2)[:, 0]

    # Remove flot precision errors during conversion
    phi1 = np.where(abs(phi1) < ANGLE_DEGREES_TOL, 0.0, phi1)
    phi2 = np.where(abs(phi2) < ANGLE_DEGREES_TOL, 0.0, phi2)

    # From Scipy the phi is from [-180,180] -> change to [0.0,360]
    phi1 += 180.0
    phi2 += 180.0

    # Get the angular range for symmetry and divide the angles to be only in that range
    if c_symmetry > 1:
        sym_div = 360.0 / c_symmetry
        phi1 = np.mod(phi1, sym_div)
        phi2 = np.mod(phi2, sym_div)

    inplane_angle = np.abs(phi1 - phi2)

    inplane_angle = np.where(inplane_angle > 180.0, np.abs(inplane_angle - 360.0), inplane_angle)

    return inplane_angle


def cone_inplane_distance(input_rot1, input_rot2, convention="zxz", degrees=True, c_symmetry=1):
    """Compute angular distance between cone-rotations and inplane-rotations, respectively.

    Parameters
    ----------
    input_rot1 : scipy.spatial.transform.Rotation object
        Rotation object describing orientation of particle.
    input_rot2 : scipy.spatial.transform.Rotation object
        Rotation object describing orientation of particle.
    convention : str, optional
        Euler angle convention. Defaults to "zxz".
    degrees :bool, optional
        Return angular distance in degrees (True) or radians (False). Defaults to True.
    c_symmetry : int, optional
        Rotational symmetry of underlying particles. Defaults to 1.

    Returns
    -------
    float
        Angular distance between cone-rotations
    float
        angular distance between inplane rotations.
    """
    if isinstance(input_rot1, np.ndarray):
        rot1 = srot.from_euler(convention, input_rot1, degrees=degrees)
    else:
        rot1 = input_rot1

    if isinstance(input_rot2, np.ndarray):
        rot2 = srot.from_euler(convention, input_rot2, degrees=degrees)
    else:
        rot2 = input_rot2

    cone_angle = cone_distance(rot1, rot2)
    inplane_angle = inplane_distance(rot1, rot2, convention, degrees, c_symmetry)

    return cone_angle, inplane_angle


def angular_distance(input_rot1, input_rot2, convention="zxz", degrees=True, c_symmetry=1):
    """Compute angular distance between two rotations. 
    Formula is based on this post
    https://math.stackexchange.com/questions/90081/quaternion-distance

    Parameters
    ----------
    input_rot1 : scipy.spatial.transform.Rotation object
        Rotation object describing orientation of particle.
    input_rot2 : scipy.spatial.transform.Rotation object
        Rotation object describing orientation of particle.
    convention : str, optional
        Euler angle convention. Defaults to "zxz".
    degrees : bool, optional
        Return angular distance in degrees (True) or radians (False). Defaults to True.
    c_symmetry : int, optional
        Rotational symmetry of underlying particles. Defaults to 1.

    Returns
    -------
    float
        Angular distance between input rotations.

    Examples
    --------
    >>> rot1 = srot.from_euler("zxz", [0, 0, 0], degrees=True)
    >>> rot2 = srot.from_euler("zxz", [45, 45, 0], degrees=True)
    >>> angular_distance(rot1, rot2)
    45.0
    """

    if isinstance(input_rot1, np.ndarray):
        rot1 = srot.from_euler(convention, input_rot1, degrees=degrees)
    else:
        rot1 = input_rot1

    if isinstance(input_rot2, np.ndarray):
        rot2 = srot.from_euler(convention, input_rot2, degrees=degrees)
    else:
        rot2 = input_rot2

    if c_symmetry > 1:
        angles1 = rot1.as_euler(convention, degrees=degrees)
        angles2 = rot2.as_euler(convention, degrees=degrees)
        sym_div = 360.0 / c_symmetry
        angles1[:, 0] = np.mod(angles1[:, 0], sym_div)
        angles2[:, 0] = np.mod(angles2[:, 0], sym_div)
        rot1 = srot.from_euler(convention, angles1, degrees=degrees)
        rot2 = srot.from_euler(convention, angles2, degrees=degrees)

    q1 = np.array(rot1.as_quat(), ndmin=2)
    q2 = np.array(rot2.as_quat(), ndmin=2)

    if q1.shape != q2.shape:
        print("The size of input rotations differ!!!")
        return

    angle = np.degrees(2 * np.arccos(np.clip(np.abs(np.sum(q1 * q2, axis=1)), 0.0, 1.0)))
    angle = angle.astype(float)

    dist = 1 - np.power(np.sum(q1 * q2, 1), 2)

    dist[dist < 10e-8] = 0

    return angle, dist


'''


def outcome(fn, *args, **kwargs):
    try:
        with contextlib.redirect_stdout(io.StringIO()):  # angular_distance prints when the sizes differ
            return ("ok", fn(*args, **kwargs))
    except Exception as err:  # noqa: BLE001 - the class and the text are compared
        return ("raise", type(err).__name__, str(err))


def same_value(x, y):
    if type(x) is not type(y):
        return False
    if isinstance(x, tuple):
        return len(x) == len(y) and all(same_value(p, q) for p, q in zip(x, y))
    if x is None:
        return True
    return x.dtype == y.dtype and x.shape == y.shape and np.array_equal(x, y, equal_nan=True)


def same_outcome(a, b):
    if a[0] != b[0]:
        return False
    return a[1:] == b[1:] if a[0] == "raise" else same_value(a[1], b[1])


def run_compare():
    ns = dict(vars(geom))
    exec(ORIGINAL, ns)  # the three originals call each other inside ns
    rng = np.random.default_rng(7)
    lat = lattice_45()
    cube = cube_rotations()
    inputs = []
    for n in (1, 2, 17, 500):
        inputs.append((rng.uniform(-360, 720, size=(n, 3)), rng.uniform(-360, 720, size=(n, 3))))
        ma, mb = random_matrices(rng, n), random_matrices(rng, n)
        inputs.append((as_rot(ma), as_rot(mb)))
        inputs.append((rng.uniform(-180, 180, size=(n, 3)), as_rot(mb)))
    inputs.append((np.array([1.0, 2.0, 3.0]), np.array([3.0, 2.0, 1.0])))  # 1-D triples
    inputs.append((as_rot(cube[3]), as_rot(cube[11])))  # single Rotation objects
    inputs.append((lat, lat[::-1].copy()))
    inputs.append((lat, lat))
    inputs.append((as_rot(cube), as_rot(cube[::-1])))
    g = rng.uniform(0, 360, size=(50, 3))
    g[:25, 1], g[25:, 1] = 0.0, 180.0
    inputs.append((g, g[::-1].copy()))
    inputs.append((g, g + np.array([180.0, 0, 0])))
    inputs.append((rng.uniform(0, 360, size=(3, 3)), rng.uniform(0, 360, size=(4, 3))))  # sizes differ

    conventions = ["zxz", "ZXZ", "zyz", "xyz", "ZYX", "zx", "", "zxzz", "abc", 5, ("z", "x", "z")]
    counts = {"ok": 0, "raise": 0}
    for name in ("angular_distance", "cone_inplane_distance", "inplane_distance"):
        new, old = getattr(geom, name), ns[name]
        for a1, a2 in inputs:
            if name == "inplane_distance":  # takes Rotation objects only
                if isinstance(a1, np.ndarray):
                    a1 = srot.from_euler("zxz", a1, degrees=True)
                if isinstance(a2, np.ndarray):
                    a2 = srot.from_euler("zxz", a2, degrees=True)
            # 1. the default, however it is reached
            ref = outcome(old, a1, a2)
            check(same_outcome(outcome(new, a1, a2), ref), f"{name}: default convention: patched != original")
            check(same_outcome(outcome(new, a1, a2, "zxz"), ref), f"{name}: positional zxz != original default")
            check(same_outcome(outcome(new, a1, a2, convention="zxz"), ref), f"{name}: keyword zxz != original default")
            check(same_outcome(outcome(old, a1, a2, convention="zxz"), ref), f"{name}: original keyword zxz")
            counts[ref[0]] += 1
            # 2. every other option combination
            for deg in (True, False):
                for sym in (1, 2, 3, 6):
                    ref = outcome(old, a1, a2, degrees=deg, c_symmetry=sym)
                    got = outcome(new, a1, a2, degrees=deg, c_symmetry=sym)
                    check(same_outcome(got, ref), f"{name}: degrees={deg} c_symmetry={sym} default convention")
                    counts[ref[0]] += 1
                    for conv in conventions:
                        ref = outcome(old, a1, a2, conv, deg, sym)
                        got = outcome(new, a1, a2, conv, deg, sym)
                        check(same_outcome(got, ref), f"{name}: convention={conv!r} degrees={deg} c_symmetry={sym}: "
                              f"{got[:2]} != {ref[:2]}")
                        got = outcome(new, a1, a2, convention=conv, c_symmetry=sym, degrees=deg)
                        check(same_outcome(got, ref), f"{name}: keyword convention={conv!r}")
                        counts[ref[0]] += 1
                    # 3. None handed over explicitly: used to reach scipy as None wherever the convention was needed
                    #    (an error); where it goes through now it must mean the default and nothing else
                    got = outcome(new, a1, a2, None, deg, sym)
                    if got[0] == "ok":
                        check(same_outcome(got, outcome(old, a1, a2, "zxz", deg, sym)), f"{name}: explicit None != zxz")
    # the sentinel is resolved per call: no state is kept between calls with different conventions
    e1, e2 = inputs[0]
    first = geom.angular_distance(e1, e2)[0].copy()
    geom.angular_distance(e1, e2, convention="zyz")
    geom.cone_inplane_distance(e1, e2, convention="xyz")
    check(np.array_equal(geom.angular_distance(e1, e2)[0], first), "default changed after a call with another convention")
    check(np.array_equal(geom.angular_distance(e1, e2)[0], ns["angular_distance"](e1, e2)[0]), "default != original")
    # the wrappers used by the rest of the toolkit (they never pass a convention)
    for sym in (1, 2, 6):
        now = geom.compare_rotations(e1, e2, c_symmetry=sym)
        ns2 = dict(ns)
        exec("def compare_rotations_orig(a, b, s):\n    return (angular_distance(a, b, c_symmetry=s)[0],) + tuple(cone_inplane_distance(a, b, c_symmetry=s))", ns2)
        check(same_value(tuple(now), ns2["compare_rotations_orig"](e1, e2, sym)), f"compare_rotations c_symmetry={sym}")
    print(f"patched vs original: {counts['ok']} option combinations returned, {counts['raise']} raised, {'identical' if not FAILS else 'see the failures above'}")


if __name__ == "__main__":
    with warnings.catch_warnings():
        warnings.simplefilter("ignore")  # scipy's gimbal-lock warnings at theta in {0,180}
        run_property()
        run_compare()
    print(f"{NCHECK[0]} checks, {len(FAILS)} failures")
    if FAILS:
        print("FAIL")
        sys.exit(1)
    print("PASS")
