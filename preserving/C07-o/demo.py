"""C07 / change b -- Motl.clean_by_distance / Motl.get_coordinates migrated to .to_numpy(), boolean .loc and one concat.

1. Property check against an independent brute-force computation (math.dist, plain Python loops):
   within every group no two remaining particles are closer than d, every removed particle lies within d of a
   remaining particle of its own group with an equal or better score (lower when keep_greater=False), groups never
   affect each other (the result equals the union of the per-group results), rows keep their content.
2. The methods in the worktree are compared with the ORIGINAL method texts (kept below) on the same inputs.
Run: cd /tmp/wt7/C07 && /venv/bin/python /tmp/seedsT/C07/b/demo.py
"""
import sys, os

sys.path.insert(0, os.getcwd())
import io, contextlib, math, warnings

warnings.filterwarnings("ignore")
import numpy as np
import pandas as pd
from cryocat import cryomotl
from cryocat.cryomotl import Motl

# Original texts (HEAD). The only edit: the original clean_by_distance calls the original get_coordinates through
# the name get_coordinates_orig, because the sub-motl it works on is always a plain Motl of the module.
ORIGINAL = '''
def get_coordinates_orig(self, tomo_number=None):
    if tomo_number is None:
        coord = self.df.loc[:, ["x", "y", "z"]].values + self.df.loc[:, ["shift_x", "shift_y", "shift_z"]].values
    else:
        coord = (
            self.df.loc[self.df.loc[:, "tomo_id"] == tomo_number, ["x", "y", "z"]].values
            + self.df.loc[
                self.df.loc[:, "tomo_id"] == tomo_number,
                ["shift_x", "shift_y", "shift_z"],
            ].values
        )

    return coord


def clean_by_distance_orig(
    self,
    distance_in_voxels,
    feature_id,
    metric_id="score",
    keep_greater=True,
    dist_mask=None,
):
    # Distance cutoff (pixels)
    d_cut = distance_in_voxels

    # Load mask if provided
    if dist_mask is not None:
        nn_stats = nnana.get_nn_stats_within_radius(self, nn_radius=d_cut, feature=feature_id)
        nn_stats_filtered = nnana.filter_nn_radial_stats(nn_stats, dist_mask)

    # Parse tomograms
    features = np.unique(self.get_feature(feature_id))

    # Initialize clean motl
    cleaned_df = pd.DataFrame()

    # Loop through and clean
    for f in features:
        # Parse tomogram
        feature_m = self.get_motl_subset(f, feature_id=feature_id, reset_index=True)
        n_temp_motl = feature_m.df.shape[0]

        # Parse positions
        pos = get_coordinates_orig(feature_m)

        # Parse scores
        temp_scores = feature_m.df[metric_id].values

        # prepare scores
        if keep_greater:
            # Sort scores
            sort_idx = np.argsort(temp_scores)[::-1]
        else:  # lower than
            # Sort scores
            sort_idx = np.argsort(temp_scores)

        # Temporary keep index
        temp_keep = np.ones((n_temp_motl,), dtype=bool)

        # Loop through in order of score
        for j in sort_idx:
            if temp_keep[j]:

                # classic radius-based cleaning
                if dist_mask is None:
                    # Calculate distances
                    dist = geom.point_pairwise_dist(pos[j, :], pos)
                    # Find cutoff
                    d_cut_idx = dist < d_cut

                    # Keep current entry
                    d_cut_idx[j] = False
                else:
                    d_cut_idx = np.arange(feature_m.df.shape[0])
                    subtomo_id = feature_m.df.loc[j, "subtomo_id"]
                    filtered_idx = nn_stats_filtered.loc[
                        nn_stats_filtered["qp_subtomo_id"] == subtomo_id, "nn_motl_idx"
                    ].values
                    d_cut_idx = np.isin(d_cut_idx, filtered_idx)

                # Remove other entries
                temp_keep[d_cut_idx] = False

        # Add entries to main list
        cleaned_df = pd.concat((cleaned_df, feature_m.df.iloc[temp_keep, :]), ignore_index=True)

    print(f"Cleaned {self.df.shape[0] - cleaned_df.shape[0]} particles.")
    self.df = cleaned_df
'''
_ns = dict(vars(cryomotl))
exec(ORIGINAL, _ns)
clean_orig = _ns["clean_by_distance_orig"]
coords_orig = _ns["get_coordinates_orig"]

FAIL = []


def check(cond, msg):
    if not cond:
        FAIL.append(msg)
        if len(FAIL) < 20:
            print("FAIL:", msg)


def quiet(fn, *a, **k):
    out = io.StringIO()
    with contextlib.redirect_stdout(out):
        r = fn(*a, **k)
    return r, out.getvalue()


rng = np.random.default_rng(7)
COLS = list(Motl.motl_columns)


def make_df(n, n_groups, feature, metric, kind, d):
    """Clustered particle list. kind: 'float' random clusters (no exact-distance ties), 'int' integer lattice
    coordinates (exact distances; thresholds hit exactly and unambiguously)."""
    df = pd.DataFrame(0.0, index=np.arange(n), columns=COLS)
    for c in ("geom1", "geom2", "geom3", "geom4", "geom5", "subtomo_mean", "class", "object_id", "tomo_id"):
        df[c] = rng.integers(1, 4, n).astype(float)
    df[["phi", "theta", "psi"]] = rng.uniform(-180, 180, (n, 3))
    if kind == "float":
        centres = rng.uniform(-50, 50, (max(1, n // 6), 3))
        pos = centres[rng.integers(0, len(centres), n)] + rng.normal(scale=d * 0.7, size=(n, 3))
        shift = rng.uniform(-0.5, 0.5, (n, 3))
        xyz = np.round(pos - shift)
        df[["x", "y", "z"]] = xyz
        df[["shift_x", "shift_y", "shift_z"]] = pos - xyz
    else:
        df[["x", "y", "z"]] = rng.integers(-6, 7, (n, 3)).astype(float)
        df[["shift_x", "shift_y", "shift_z"]] = 0.0
        if rng.random() < 0.5:  # half-voxel shifts are exact in binary
            df[["shift_x", "shift_y", "shift_z"]] = rng.integers(-1, 2, (n, 3)) * 0.5
    groups = rng.choice([-3.0, 0.0, 1.0, 2.0, 17.0, 104.0][: max(n_groups, 1) + 2], size=n_groups, replace=False)
    df[feature] = groups[rng.integers(0, n_groups, n)]
    df[metric] = rng.permutation(n) * rng.uniform(0.01, 2.0) - rng.uniform(0, n)  # distinct, negative values too
    if feature != "subtomo_id" and metric != "subtomo_id":
        df["subtomo_id"] = rng.permutation(n) + 1.0
    return df


def no_distance_ties(df, d):
    p = (df[["x", "y", "z"]].to_numpy() + df[["shift_x", "shift_y", "shift_z"]].to_numpy()).tolist()
    for i in range(len(p)):
        for j in range(i):
            if abs(math.dist(p[i], p[j]) - d) < 1e-7:
                return False
    return True


def reference_keep(df, d, feature, metric, keep_greater):
    """Independent greedy per group: returns the list of kept row positions in output order (groups ascending,
    original row order inside a group)."""
    rows = df.to_dict("records")
    kept_all = []
    for g in sorted(set(r[feature] for r in rows)):
        idx = [i for i, r in enumerate(rows) if r[feature] == g]
        order = sorted(idx, key=lambda i: rows[i][metric], reverse=keep_greater)
        alive = {i: True for i in idx}
        for i in order:
            if not alive[i]:
                continue
            pi = [rows[i][a] + rows[i]["shift_" + a] for a in "xyz"]
            for k in idx:
                if k != i and alive[k]:
                    pk = [rows[k][a] + rows[k]["shift_" + a] for a in "xyz"]
                    if math.dist(pi, pk) < d:
                        alive[k] = False
        kept_all += [i for i in idx if alive[i]]
    return kept_all


def property_check(before, after, d, feature, metric, keep_greater, tag, unique_scores=True):
    rows_b = before.to_dict("records")
    rows_a = after.to_dict("records")
    check(list(after.columns) == list(before.columns), f"{tag}: columns changed")
    check(isinstance(after.index, pd.RangeIndex) and after.index.start == 0 and after.index.step == 1, f"{tag}: index not reset")
    check(all(str(t) == "float64" for t in after.dtypes), f"{tag}: dtypes {set(map(str, after.dtypes))}")
    key = lambda r: tuple(r[c] for c in COLS)
    set_b = {}
    for i, r in enumerate(rows_b):
        set_b[key(r)] = i
    check(len(set_b) == len(rows_b), f"{tag}: (test set-up) duplicate rows")
    kept_pos = []
    for r in rows_a:
        check(key(r) in set_b, f"{tag}: a remaining row is not a row of the input")
        kept_pos.append(set_b.get(key(r), -1))
    check(len(set(kept_pos)) == len(kept_pos), f"{tag}: a row remains twice")
    kept = set(kept_pos)
    P = lambda r: [r[a] + r["shift_" + a] for a in "xyz"]
    better = (lambda a, b: a >= b) if keep_greater else (lambda a, b: a <= b)
    for g in set(r[feature] for r in rows_b):
        idx = [i for i, r in enumerate(rows_b) if r[feature] == g]
        kg = [i for i in idx if i in kept]
        for a in range(len(kg)):
            for b in range(a):
                check(not (math.dist(P(rows_b[kg[a]]), P(rows_b[kg[b]])) < d), f"{tag}: two remaining particles closer than d")
        for i in idx:
            if i in kept:
                continue
            ok = any(math.dist(P(rows_b[i]), P(rows_b[k])) < d and better(rows_b[k][metric], rows_b[i][metric]) for k in kg)
            check(ok, f"{tag}: removed particle not dominated inside its own group")
    if unique_scores:
        ref = reference_keep(before, d, feature, metric, keep_greater)
        check(ref == kept_pos, f"{tag}: differs from the brute-force greedy (kept rows or their order)")
        # groups never affect each other: cleaning one group alone gives that group's part of the result
        for g in sorted(set(r[feature] for r in rows_b)):
            sub = before.loc[before[feature] == g].copy()
            m = Motl(sub)
            quiet(m.clean_by_distance, d, feature, metric_id=metric, keep_greater=keep_greater)
            part = after.loc[after[feature] == g]
            check(np.array_equal(m.df.to_numpy(), part.to_numpy()), f"{tag}: group {g} cleaned alone differs")


def same(new_df, old_df, tag):
    try:
        pd.testing.assert_frame_equal(new_df, old_df, check_exact=True)
        assert type(new_df.index) is type(old_df.index)
    except AssertionError as e:
        check(False, f"{tag}: patched vs original differ: {str(e)[:200]}")


FIELDS = ["tomo_id", "object_id", "class", "geom1", "geom3", "subtomo_mean"]
METRICS = ["score", "geom2", "geom5"]
sizes = [1, 1, 2, 2, 3, 3, 4, 5, 7, 10, 16, 25, 40, 63, 100, 150, 230, 400]
n_cases = 0
for it, n in enumerate(sizes * 6):
    kind = "int" if it % 3 == 2 else "float"
    feature = FIELDS[it % len(FIELDS)]
    metric = METRICS[(it // 2) % len(METRICS)]
    n_groups = min(n, int(rng.integers(1, 5)))
    keep_greater = bool(it % 2)
    if kind == "int":
        d = float(rng.choice([1.0, 1.5, 3.0, 5.0, 6.5]))  # 1, 3, 5: distances exactly at the threshold occur
    else:
        d = float(rng.choice([0.3, 2.0, 7.77, 31.0]))
    for attempt in range(20):
        df = make_df(n, n_groups, feature, metric, kind, d)
        if kind == "int":
            df = df.drop_duplicates(subset=["x", "y", "z", "shift_x", "shift_y", "shift_z"]).reset_index(drop=True)
            df[metric] = rng.permutation(len(df)) * 0.25 - 3.0
            break
        if no_distance_ties(df, d):
            break
    else:
        raise SystemExit("could not build a tie-free configuration")
    # non-default row indices
    idx_kind = it % 4
    if idx_kind == 1:
        df.index = rng.permutation(len(df)) + 100
    elif idx_kind == 2:
        df.index = np.arange(len(df))[::-1]
    elif idx_kind == 3:
        df.index = np.arange(len(df)) * 3 - 7
    tag = f"n={len(df)} kind={kind} feature={feature} metric={metric} groups={n_groups} greater={keep_greater} d={d} idx={idx_kind}"
    before = df.copy()
    m_new, m_old = Motl(df.copy()), Motl(df.copy())
    _, out_new = quiet(m_new.clean_by_distance, d, feature, metric_id=metric, keep_greater=keep_greater)
    _, out_old = quiet(clean_orig, m_old, d, feature, metric_id=metric, keep_greater=keep_greater)
    property_check(before, m_new.df, d, feature, metric, keep_greater, tag)
    same(m_new.df, m_old.df, tag)
    check(out_new == out_old, f"{tag}: printed message differs")
    # second call on the same object: already separated -> nothing removed, rows unchanged
    once = m_new.df.copy()
    quiet(m_new.clean_by_distance, d, feature, metric_id=metric, keep_greater=keep_greater)
    exp = pd.concat([once.loc[once[feature] == g] for g in sorted(once[feature].unique())], ignore_index=True)
    check(np.array_equal(m_new.df.to_numpy(), exp.to_numpy()), f"{tag}: second cleaning changed the list")
    quiet(clean_orig, m_old, d, feature, metric_id=metric, keep_greater=keep_greater)
    same(m_new.df, m_old.df, tag + " (second call)")
    # positional call of the optional arguments
    m_pos = Motl(before.copy())
    quiet(m_pos.clean_by_distance, d, feature, metric, keep_greater, None)
    same(m_pos.df, once, tag + " (positional)")
    n_cases += 1

# tied scores: property only (order among equal scores is not fixed) + patched vs original
for it in range(40):
    n = int(rng.integers(2, 80))
    d = float(rng.choice([2.0, 7.77]))
    for attempt in range(20):
        df = make_df(n, min(n, 3), "tomo_id", "score", "float", d)
        if no_distance_ties(df, d):
            break
    df["score"] = rng.integers(0, 3, n) * 0.5
    for kg in (True, False):
        m_new, m_old = Motl(df.copy()), Motl(df.copy())
        quiet(m_new.clean_by_distance, d, "tomo_id", keep_greater=kg)
        quiet(clean_orig, m_old, d, "tomo_id", keep_greater=kg)
        property_check(df, m_new.df, d, "tomo_id", "score", kg, f"ties n={n} d={d} greater={kg}", unique_scores=False)
        same(m_new.df, m_old.df, f"ties n={n} d={d} greater={kg}")
        n_cases += 1

# patched vs original outside the quantifier: integer columns as filled by Motl.fill, NaN holes in unrelated columns,
# an empty motl, a nullable metric column
m = Motl()
m.fill({"x": [1, 2, 3, 10, 11], "y": 0, "z": [0, 0, 0, 1, 1], "score": [0.1, 0.9, 0.5, 0.2, 0.3], "tomo_id": [2, 2, 2, 1, 1], "subtomo_id": np.arange(1, 6)})
for kg in (True, False):
    a, b = Motl(m.df.copy()), Motl(m.df.copy())
    quiet(a.clean_by_distance, 1.5, "tomo_id", keep_greater=kg)
    quiet(clean_orig, b, 1.5, "tomo_id", keep_greater=kg)
    same(a.df, b.df, f"filled motl greater={kg}")
    exp_ids = [5.0, 2.0] if kg else [4.0, 1.0, 3.0]
    check(a.df["subtomo_id"].tolist() == exp_ids, f"filled motl greater={kg}: kept {a.df['subtomo_id'].tolist()}")
holes = make_df(30, 2, "tomo_id", "score", "float", 5.0)
holes.loc[holes.index[::3], "geom4"] = np.nan
holes.loc[holes.index[::5], "phi"] = np.nan
a, b = Motl(holes.copy()), Motl(holes.copy())
quiet(a.clean_by_distance, 5.0, "tomo_id")
quiet(clean_orig, b, 5.0, "tomo_id")
same(a.df, b.df, "NaN holes")
a, b = Motl(), Motl()
quiet(a.clean_by_distance, 5.0, "tomo_id")
quiet(clean_orig, b, 5.0, "tomo_id")
same(a.df, b.df, "empty motl")
check(a.df.shape == (0, 0), f"empty motl: shape {a.df.shape}")
nul = make_df(25, 2, "tomo_id", "score", "float", 5.0)
nul["score"] = nul["score"].astype("Float64")
res = []
for fn in (lambda mm: mm.clean_by_distance(5.0, "tomo_id"), lambda mm: clean_orig(mm, 5.0, "tomo_id")):
    mm = Motl(nul.copy())
    try:
        quiet(fn, mm)
        res.append(mm.df)
    except Exception as e:
        res.append(("EXC", type(e).__name__))
if isinstance(res[0], tuple) or isinstance(res[1], tuple):
    check(res[0] == res[1], f"nullable metric: {res}")
else:
    same(res[0], res[1], "nullable metric")

# get_coordinates, patched vs original
for it in range(40):
    n = int(rng.integers(0, 30))
    df = make_df(max(n, 1), 2, "tomo_id", "score", "float", 3.0).iloc[:n]
    if it % 3 == 0 and n:
        df = df.astype({"x": "int64", "tomo_id": "int32"})
    if it % 4 == 1 and n:
        df.index = rng.permutation(n) + 5
    mm = Motl(df)
    for t in [None] + sorted(set(df["tomo_id"].tolist())) + [999]:
        c_new, c_old = mm.get_coordinates(t), coords_orig(mm, t)
        check(c_new.dtype == c_old.dtype and c_new.shape == c_old.shape and np.array_equal(c_new, c_old), f"get_coordinates n={n} tomo={t}")
        if t is None:
            exp = np.array([[r[a] + r["shift_" + a] for a in "xyz"] for r in df.to_dict("records")], dtype=float).reshape(-1, 3)
            check(np.array_equal(c_new, exp), f"get_coordinates n={n}: wrong values")

print(f"cases: {n_cases}")
if FAIL:
    print(f"FAIL ({len(FAIL)} problems)")
    sys.exit(1)
print("PASS")
