"""C05 / change a: shift_positions converts the shift vector once and shares the apply/reset tail.

Checks
 1. the property C05 (complete position x+shift and orientation transform rigidly under update_coordinates,
    scale_coordinates, shift_positions, apply_rotation, flip_handedness and histories of up to 6 of them) against an
    independent model (own Euler -> matrix code, plain numpy bookkeeping of positions and matrices);
 2. Motl.shift_positions of the tree under test against a verbatim copy of the original function, bit for bit,
    in both modes (inplace True / False), for lists, tuples, arrays, integer vectors, empty motls, odd indices,
    repeated calls on the same objects;
 3. the caller's inputs (shift vector, the motl in inplace=False mode) stay untouched.
Run as: cd /tmp/wt13/C05 && /venv/bin/python /tmp/seedsW/C05/a/demo.py
"""
import os
import sys

sys.path.insert(0, os.getcwd())

import copy
import warnings

import numpy as np
import pandas as pd
from scipy.spatial.transform import Rotation as rot

warnings.filterwarnings("ignore")

from cryocat.cryomotl import Motl  # noqa: E402


# ----------------------------------------------------------------------------------------------------------------------
# verbatim copy of the original function (HEAD b1093bd)
# ----------------------------------------------------------------------------------------------------------------------
def orig_shift_positions(self, shift, inplace=True):
    def shift_coords(row):
        v = np.array(shift)
        euler_angles = np.array([[row["phi"], row["theta"], row["psi"]]])
        orientations = rot.from_euler(seq="zxz", angles=euler_angles, degrees=True)
        rshifts = orientations.apply(v)

        row["shift_x"] = row["shift_x"] + rshifts[0][0]
        row["shift_y"] = row["shift_y"] + rshifts[0][1]
        row["shift_z"] = row["shift_z"] + rshifts[0][2]
        return row

    if inplace:
        self.df = self.df.apply(shift_coords, axis=1).reset_index(drop=True)
    else:
        new_motl = copy.deepcopy(self)
        new_motl.df = new_motl.df.apply(shift_coords, axis=1).reset_index(drop=True)
        return new_motl


# ----------------------------------------------------------------------------------------------------------------------
# independent model
# ----------------------------------------------------------------------------------------------------------------------
def rz(a):
    c, s = np.cos(a), np.sin(a)
    return np.array([[c, -s, 0.0], [s, c, 0.0], [0.0, 0.0, 1.0]])


def rx(a):
    c, s = np.cos(a), np.sin(a)
    return np.array([[1.0, 0.0, 0.0], [0.0, c, -s], [0.0, s, c]])


def euler_to_matrix(phi, theta, psi):
    # cryoCAT: extrinsic zxz (phi first about z, theta about x, psi about z)
    p, t, s = np.deg2rad([phi, theta, psi])
    return rz(s) @ rx(t) @ rz(p)


def matrices_of(df):
    return np.array([euler_to_matrix(a, b, c) for a, b, c in df[["phi", "theta", "psi"]].to_numpy()]).reshape(-1, 3, 3)


def positions_of(df):
    return df[["x", "y", "z"]].to_numpy(dtype=float) + df[["shift_x", "shift_y", "shift_z"]].to_numpy(dtype=float)


def random_matrix(rng):
    q = rng.normal(size=4)
    q /= np.linalg.norm(q)
    w, x, y, z = q
    return np.array(
        [
            [1 - 2 * (y * y + z * z), 2 * (x * y - z * w), 2 * (x * z + y * w)],
            [2 * (x * y + z * w), 1 - 2 * (x * x + z * z), 2 * (y * z - x * w)],
            [2 * (x * z - y * w), 2 * (y * z + x * w), 1 - 2 * (x * x + y * y)],
        ]
    )


MIRROR = np.diag([1.0, 1.0, -1.0])


def make_motl(rng, sizes, kind):
    """sizes: particles per tomogram (0 allowed); kind selects the flavour of positions / angles."""
    n = int(sum(sizes))
    df = pd.DataFrame(np.zeros((n, len(Motl.motl_columns))), columns=Motl.motl_columns)
    tomo_ids = np.repeat(np.arange(1, len(sizes) + 1) * 3, sizes).astype(float)
    df["tomo_id"] = tomo_ids
    df["subtomo_id"] = np.arange(1, n + 1, dtype=float)
    df["object_id"] = rng.integers(1, 4, size=n).astype(float)
    df["score"] = rng.random(n)
    df["class"] = 1.0
    if kind == "ties":
        df[["x", "y", "z"]] = rng.integers(-40, 40, size=(n, 3)).astype(float)
        df[["shift_x", "shift_y", "shift_z"]] = rng.choice([-1.5, -0.5, 0.0, 0.5, 1.5, 2.5], size=(n, 3))
    elif kind == "integer":
        df[["x", "y", "z"]] = rng.integers(1, 200, size=(n, 3)).astype(float)
    else:
        df[["x", "y", "z"]] = rng.uniform(-150, 300, size=(n, 3))
        df[["shift_x", "shift_y", "shift_z"]] = rng.uniform(-6, 6, size=(n, 3))
    if kind == "lock":
        df["phi"] = rng.uniform(-180, 180, size=n)
        df["theta"] = rng.choice([0.0, 180.0, 90.0, -90.0], size=n)
        df["psi"] = rng.uniform(-180, 180, size=n)
    else:
        df[["phi", "psi"]] = rng.uniform(-360, 360, size=(n, 2))
        df["theta"] = rng.uniform(-180, 180, size=n)
    return Motl(df)


def assert_close(a, b, what, tol=1e-7):
    a = np.asarray(a, dtype=float)
    b = np.asarray(b, dtype=float)
    assert a.shape == b.shape, (what, a.shape, b.shape)
    if a.size:
        err = np.max(np.abs(a - b))
        assert err <= tol, (what, err)


def check_state(m, pos, mats, what):
    assert_close(positions_of(m.df), pos, what + ": positions (df)")
    assert_close(m.get_coordinates(), pos, what + ": get_coordinates")
    assert_close(matrices_of(m.df), mats, what + ": orientations (df)")
    rots = m.get_rotations()
    if len(m.df):
        assert_close(rots.as_matrix(), mats, what + ": get_rotations")
    else:
        assert len(rots) == 0


def half_away(p):
    return np.sign(p) * np.floor(np.abs(p) + 0.5)


def apply_op(m, pos, mats, op, rng, sizes):
    """apply one operation to the motl and to the model; returns (pos, mats)"""
    name = op
    if name == "update":
        m.update_coordinates()
        xyz = m.df[["x", "y", "z"]].to_numpy(dtype=float)
        sh = m.df[["shift_x", "shift_y", "shift_z"]].to_numpy(dtype=float)
        assert np.all(xyz == np.round(xyz)), "update_coordinates: x, y, z not integer"
        assert np.all(np.abs(sh) <= 0.5), "update_coordinates: |shift| > 0.5"
    elif name == "scale":
        f = float(rng.choice([0.25, 0.5, 2.0, 4.0, 1.0, rng.uniform(0.1, 7.0)]))
        m.scale_coordinates(f)
        pos = pos * f
    elif name == "shift":
        s = rng.uniform(-12, 12, size=3)
        if rng.random() < 0.2:
            s = np.round(s)
        form = rng.integers(0, 4)
        arg = [s, list(s), tuple(s), s.reshape(3)][form]
        keep = copy.deepcopy(arg)
        m.shift_positions(arg)
        assert type(arg) is type(keep) and np.array_equal(np.asarray(arg), np.asarray(keep)), "shift vector changed"
        if len(pos):
            pos = pos + np.einsum("nij,j->ni", mats, s)
    elif name == "rotate":
        q = random_matrix(rng)
        r = rot.from_matrix(q)
        before = r.as_quat().copy()
        m.apply_rotation(r)
        assert np.array_equal(r.as_quat(), before), "rotation object changed"
        if len(mats):
            mats = mats @ q
    elif name == "flip":
        tomos = np.arange(1, len(sizes) + 1) * 3
        if rng.random() < 0.4:
            dz = float(rng.integers(50, 500))
            dims = np.array([float(rng.integers(50, 900)), float(rng.integers(50, 900)), dz])
            if rng.random() < 0.5:
                dims = list(dims)
            zs = np.full(len(pos), dz)
        else:
            order = rng.permutation(len(tomos))
            table = np.column_stack(
                [
                    tomos[order],
                    rng.integers(50, 900, size=len(tomos)),
                    rng.integers(50, 900, size=len(tomos)),
                    rng.integers(50, 500, size=len(tomos)),
                ]
            ).astype(float)
            if len(tomos) == 1:
                # a single row with 4 entries is still a per-tomogram table
                table = table.reshape(1, 4)
            zmap = {t: z for t, z in zip(table[:, 0], table[:, 3])}
            zs = np.array([zmap[t] for t in m.df["tomo_id"].to_numpy()], dtype=float)
            dims = pd.DataFrame(table, columns=["tomo_id", "x", "y", "z"]) if rng.random() < 0.5 else table
        keep = copy.deepcopy(dims)
        m.flip_handedness(dims)
        assert np.array_equal(np.asarray(keep, dtype=float), np.asarray(dims, dtype=float)), "dimension table changed"
        if len(pos):
            pos = pos.copy()
            pos[:, 2] = zs + 1.0 - pos[:, 2]
            mats = MIRROR @ mats @ MIRROR
    else:
        raise AssertionError(name)
    return pos, mats


def property_check(rng, rounds):
    ops = ["update", "scale", "shift", "rotate", "flip"]
    size_sets = [[4], [3, 0, 5], [1, 2, 7, 1], [0, 0, 2], [6, 1], [0], [2, 2, 2, 2, 2]]
    kinds = ["general", "ties", "integer", "lock"]
    count = 0
    for r in range(rounds):
        sizes = size_sets[r % len(size_sets)]
        kind = kinds[(r // len(size_sets)) % len(kinds)]
        m = make_motl(rng, sizes, kind)
        pos, mats = positions_of(m.df), matrices_of(m.df)
        check_state(m, pos, mats, "start")
        history = list(rng.choice(ops, size=int(rng.integers(1, 7))))
        for k, op in enumerate(history):
            pos, mats = apply_op(m, pos, mats, op, rng, sizes)
            check_state(m, pos, mats, f"round {r} {history[: k + 1]}")
            count += 1

    # composition and involution stated explicitly
    for r in range(12):
        sizes = size_sets[r % len(size_sets)]
        m = make_motl(rng, sizes, kinds[r % len(kinds)])
        s1, s2 = rng.uniform(-9, 9, size=3), rng.uniform(-9, 9, size=3)
        a, b = copy.deepcopy(m), copy.deepcopy(m)
        a.shift_positions(s1)
        a.shift_positions(s2)
        b.shift_positions(s1 + s2)
        assert_close(a.get_coordinates(), b.get_coordinates(), "s1 then s2 = s1+s2")
        q1, q2 = rot.from_matrix(random_matrix(rng)), rot.from_matrix(random_matrix(rng))
        a, b = copy.deepcopy(m), copy.deepcopy(m)
        a.apply_rotation(q1)
        a.apply_rotation(q2)
        b.apply_rotation(q1 * q2)
        assert_close(matrices_of(a.df), matrices_of(b.df), "Q1 then Q2 = Q1*Q2")
        assert_close(a.get_coordinates(), m.get_coordinates(), "apply_rotation moves nothing", tol=0)
        c = copy.deepcopy(m)
        dims = np.column_stack(
            [np.arange(1, len(sizes) + 1) * 3, np.full(len(sizes), 400), np.full(len(sizes), 400), 100 + np.arange(len(sizes))]
        ).astype(float)
        c.flip_handedness(dims)
        c.flip_handedness(dims)
        assert_close(c.df[Motl.motl_columns].to_numpy(), m.df[Motl.motl_columns].to_numpy(), "flip twice", tol=1e-9)
        # update_coordinates: ties go away from zero, complete position untouched
        u = copy.deepcopy(m)
        before = positions_of(u.df)
        u.update_coordinates()
        assert_close(positions_of(u.df), before, "update keeps x+shift", tol=1e-9)
        assert np.array_equal(u.df[["x", "y", "z"]].to_numpy(), half_away(before)), "round half away from zero"
    return count


# ----------------------------------------------------------------------------------------------------------------------
# patched function against the original text
# ----------------------------------------------------------------------------------------------------------------------
def frames_identical(a, b, what):
    assert list(a.columns) == list(b.columns), what + ": columns"
    assert a.index.equals(b.index) and type(a.index) is type(b.index), what + ": index"
    assert (a.dtypes == b.dtypes).all(), what + ": dtypes"
    av, bv = a.to_numpy(dtype=float), b.to_numpy(dtype=float)
    assert np.array_equal(av, bv, equal_nan=True), what + ": values"


def differential(rng, rounds):
    size_sets = [[4], [3, 0, 5], [0], [1], [2, 6, 1], [0, 0, 3]]
    kinds = ["general", "ties", "integer", "lock"]
    n = 0
    for r in range(rounds):
        m = make_motl(rng, size_sets[r % len(size_sets)], kinds[r % len(kinds)])
        if r % 5 == 1 and len(m.df) > 1:
            # a list that was filtered before: non-default index, must come back renumbered in both versions
            m.df = m.df.iloc[::-1].iloc[:-1]
        if r % 7 == 3:
            m.df["tomo_id"] = m.df["tomo_id"].astype(int)  # mixed dtypes -> rows come as object/float series
        s = rng.uniform(-10, 10, size=3)
        args = [s, list(s), tuple(s), np.round(s).astype(int), [1, 0, 0], (0.0, 0.0, 0.0), np.float32(s)]
        arg = args[r % len(args)]
        for inplace in (True, False):
            new, old = copy.deepcopy(m), copy.deepcopy(m)
            start = copy.deepcopy(m.df)
            keep = copy.deepcopy(arg)
            for rep in range(3):  # repeated calls on the same objects
                if inplace:
                    out_new = new.shift_positions(arg, inplace=True)
                    out_old = orig_shift_positions(old, arg, inplace=True)
                    assert out_new is None and out_old is None
                    frames_identical(new.df, old.df, f"inplace call {rep}")
                else:
                    out_new = new.shift_positions(arg, inplace=False)
                    out_old = orig_shift_positions(old, arg, inplace=False)
                    assert type(out_new) is type(out_old) is Motl
                    assert out_new is not new and out_new.df is not new.df
                    frames_identical(out_new.df, out_old.df, f"copy call {rep}")
                    # the motl the method was called on stays exactly as it was (index included)
                    frames_identical(new.df, start, "self after inplace=False")
                    frames_identical(old.df, start, "self after inplace=False (orig)")
                    new, old = out_new, out_old
                    start = copy.deepcopy(out_new.df)
                assert type(arg) is type(keep) and np.array_equal(np.asarray(arg), np.asarray(keep)), "shift changed"
                n += 1
        # default of inplace
        new, old = copy.deepcopy(m), copy.deepcopy(m)
        assert new.shift_positions(arg) is None
        orig_shift_positions(old, arg)
        frames_identical(new.df, old.df, "default inplace")
    return n


def main():
    rng = np.random.default_rng(20505)
    n_prop = property_check(rng, 140)
    n_diff = differential(rng, 60)
    print(f"property: {n_prop} operations checked against the model; differential: {n_diff} calls identical")
    print("PASS")


if __name__ == "__main__":
    try:
        main()
    except AssertionError as e:
        print("FAIL", e)
        sys.exit(1)
