"""Effect / alias analysis (E10): hidden state and caller-owned inputs.

A property that must hold *for every history of calls* needs its functions to be functions of their arguments: the
result of a call may not depend on earlier calls, and a call may not change the objects the caller handed in (the next
call on the same object would otherwise see another input).  This module decides, from the syntax tree and the resolved
call graph only, for every function in the closure of a property's entry points:

  E-param    an in-place write (subscript/attribute store, augmented assignment on an array, mutating method, `out=`,
             inplace=True, or a callee that does one of these) reaches an object that may be (part of) a non-self parameter
  E-global   ... reaches a module-level or class-level mutable object
  E-default  ... reaches a mutable default argument value
  E-share    the function returns an object that may be (part of) module/class-level state (hands out shared storage)
  E-state    the function reads a module/class-level mutable container that some function of the program writes
             (memoisation / hidden state); classified: file-keyed cache, incomplete memo key, shared result
  E-cache    functools.lru_cache / cache on a function of the closure

The analysis is a forward, flow-sensitive (statement order, branch merge by union, loops twice) may-alias analysis over
*origins*: (kind, name, path, shallow) with kind in {param, global, default}, path = attribute / element steps (<= 3).
Function calls use interprocedural summaries (which parameters may be returned / mutated), computed on demand with a
recursion guard.  Copies (x.copy(), copy.deepcopy, np.array, arithmetic, constructors) produce fresh objects; views
(np.asarray, reshape, .T, basic indexing, attribute access) keep the origin; copy.copy keeps the attributes' origins.

Sites confirmed by reading on today's tree are the reference: they are listed in spec/effects_baseline.py (function,
kind, root) with a reason, everything else is reported."""
from __future__ import annotations

import ast

MUT_METHODS = {"append", "extend", "insert", "remove", "pop", "clear", "sort", "reverse", "update", "add", "discard", "setdefault",
               "fill", "put", "itemset", "resize", "popitem", "setflags", "__setitem__", "appendleft", "popleft", "partition", "byteswap"}
# receiver-preserving (view / same object) methods and functions
VIEW_METHODS = {"reshape", "view", "squeeze", "ravel", "transpose", "swapaxes", "get", "setdefault", "__getitem__", "item"}
VIEW_ATTRS = {"T", "values", "real", "imag", "flat", "loc", "iloc", "at", "iat", "data"}
VIEW_FUNCS = {"numpy.asarray", "numpy.asanyarray", "numpy.atleast_1d", "numpy.atleast_2d", "numpy.atleast_3d", "numpy.ascontiguousarray",
              "numpy.squeeze", "numpy.reshape", "numpy.ravel", "numpy.transpose", "numpy.swapaxes", "numpy.moveaxis", "numpy.asfortranarray",
              "numpy.expand_dims", "numpy.broadcast_to", "numpy.flip", "numpy.fliplr", "numpy.flipud", "numpy.rollaxis", "numpy.diagonal",
              "numpy.require"}
ARRAYISH_FUNCS = VIEW_FUNCS
MUT_FUNCS_ARG0 = {"numpy.put", "numpy.place", "numpy.copyto", "numpy.fill_diagonal", "random.shuffle", "numpy.random.shuffle", "numpy.putmask",
                  "numpy.put_along_axis", "numpy.add.at", "numpy.subtract.at", "numpy.multiply.at", "numpy.maximum.at", "numpy.minimum.at"}
SHALLOW_FUNCS = {"copy.copy"}
MUTABLE_CTORS = {"dict", "list", "set", "collections.defaultdict", "collections.OrderedDict", "collections.deque", "defaultdict", "OrderedDict",
                 "numpy.zeros", "numpy.ones", "numpy.array", "numpy.empty", "numpy.full", "numpy.asarray", "numpy.arange", "pandas.DataFrame",
                 "pandas.Series", "bytearray", "numpy.eye", "numpy.identity", "collections.Counter", "Counter", "deque", "weakref.WeakValueDictionary"}
CACHE_DECOS = {"functools.lru_cache", "functools.cache", "functools.cached_property", "lru_cache", "cache", "cached_property"}
MAXPATH = 3


class Origin(tuple):
    """(kind, name, path, shallow)"""
    __slots__ = ()

    def __new__(cls, kind, name, path=(), shallow=False, arrayish=False):
        return tuple.__new__(cls, (kind, name, tuple(path)[:MAXPATH], bool(shallow), bool(arrayish)))

    kind = property(lambda s: s[0])
    name = property(lambda s: s[1])
    path = property(lambda s: s[2])
    shallow = property(lambda s: s[3])
    arrayish = property(lambda s: s[4])

    def step(self, a):
        return Origin(self.kind, self.name, self.path + (a,), False, False)

    def view(self, arrayish=False):
        return Origin(self.kind, self.name, self.path, self.shallow, self.arrayish or arrayish)

    def root(self):
        return f"{self.kind}:{self.name}" + ("." + ".".join(self.path) if self.path else "")


class Effect:
    def __init__(self, kind, fn, origin, node, how, via=None):
        self.kind, self.fn, self.origin, self.node, self.how, self.via = kind, fn, origin, node, how, via

    def key(self):
        return (self.fn, self.kind, f"{self.origin.kind}:{self.origin.name}")


class Summary:
    def __init__(self):
        self.ret = set()        # origins the result may be (rooted in own params / globals / defaults)
        self.mut = []           # Effect list (origin rooted in own params / globals / defaults)
        self.greads = []        # (global name, node, returned?)
        self.gwrites = []       # (global name, node)
        self.done = False


class Effects:
    def __init__(self, prog):
        self.prog = prog
        self.summaries = {}
        self.stack = []
        self._globals = None
        self._methods = None

    # ------------------------------------------------------------------------------------------ program-level tables
    def mutable_globals(self):
        """module-level and class-level names bound to a mutable container: 'mod.NAME' / 'mod.Class.NAME' -> value node"""
        if self._globals is not None:
            return self._globals
        out = {}
        for mn, m in self.prog.modules.items():
            def scan(body, prefix):
                for st in body:
                    tgts, val = [], None
                    if isinstance(st, ast.Assign):
                        tgts, val = [t for t in st.targets if isinstance(t, ast.Name)], st.value
                    elif isinstance(st, ast.AnnAssign) and isinstance(st.target, ast.Name) and st.value is not None:
                        tgts, val = [st.target], st.value
                    elif isinstance(st, ast.ClassDef):
                        scan(st.body, prefix + st.name + ".")
                        continue
                    elif isinstance(st, (ast.If, ast.Try)):
                        scan(st.body, prefix)
                        continue
                    for t in tgts:
                        if self._is_mutable_literal(m, val):
                            out[f"{mn}.{prefix}{t.id}"] = val
            scan(m.tree.body, "")
        self._globals = out
        return out

    def _is_mutable_literal(self, m, val):
        if isinstance(val, (ast.List, ast.Dict, ast.Set, ast.ListComp, ast.DictComp, ast.SetComp)):
            return True
        if isinstance(val, ast.Call):
            d = self.prog.resolve(m, val.func) or (val.func.id if isinstance(val.func, ast.Name) else None)
            return d in MUTABLE_CTORS
        return False

    def methods_named(self, name):
        if self._methods is None:
            self._methods = {}
            for q, m, fn in self.prog.functions():
                parts = q.split(".")
                if len(parts) >= 3:
                    self._methods.setdefault(parts[-1], []).append(q)
        return self._methods.get(name, [])

    # ------------------------------------------------------------------------------------------ per-function analysis
    def summary(self, q):
        if q in self.summaries and self.summaries[q].done:
            return self.summaries[q]
        if q in self.stack:
            return self.summaries.setdefault(q, Summary())  # recursion: current approximation
        s = self.summaries.setdefault(q, Summary())
        self.stack.append(q)
        try:
            _FnPass(self, q, s).run()
        finally:
            self.stack.pop()
        s.done = True
        return s


class _FnPass:
    def __init__(self, eff, q, summ):
        self.eff, self.prog, self.q, self.s = eff, eff.prog, q, summ
        self.m, self.fn = self.prog.func(q)
        self.owner = self.prog.enclosing_class(q)
        a = self.fn.args
        self.params = [x.arg for x in a.posonlyargs + a.args + a.kwonlyargs]
        if a.vararg:
            self.params.append(a.vararg.arg)
        if a.kwarg:
            self.params.append(a.kwarg.arg)
        self.is_method = bool(self.owner) and self.params and self.params[0] in ("self", "cls") and not any(
            isinstance(d, ast.Name) and d.id == "staticmethod" for d in self.fn.decorator_list)
        self.defaults = {}
        pos = a.posonlyargs + a.args
        for p, d in zip(pos[len(pos) - len(a.defaults):], a.defaults):
            self.defaults[p.arg] = d
        for p, d in zip(a.kwonlyargs, a.kw_defaults):
            if d is not None:
                self.defaults[p.arg] = d
        self.arrayish_names = self._arrayish_evidence()
        self.globs = eff.mutable_globals()

    def _arrayish_evidence(self):
        ev = set()
        for n in ast.walk(self.fn):
            if isinstance(n, ast.Attribute) and isinstance(n.value, ast.Name) and n.attr in ("shape", "ndim", "dtype", "size", "T", "astype", "reshape"):
                ev.add(n.value.id)
            if isinstance(n, ast.Subscript) and isinstance(n.value, ast.Name) and isinstance(n.slice, (ast.Tuple, ast.Slice)):
                ev.add(n.value.id)
        return ev

    # ---------------------------------------------------------------------------------------------------- driver
    def run(self):
        env = {}
        for p in self.params:
            if self.is_method and p == self.params[0]:
                env[p] = {Origin("param", p)}
                continue
            o = {Origin("param", p, arrayish=p in self.arrayish_names)}
            d = self.defaults.get(p)
            if d is not None and self.eff._is_mutable_literal(self.m, d):
                o.add(Origin("default", p, arrayish=True))
            env[p] = o
        self.block(self.fn.body, env)

    def block(self, body, env):
        for st in body:
            self.stmt(st, env)

    @staticmethod
    def merge(a, b):
        out = dict(a)
        for k, v in b.items():
            out[k] = set(out.get(k, set())) | set(v)
        return out

    def stmt(self, st, env):
        if isinstance(st, (ast.FunctionDef, ast.AsyncFunctionDef, ast.ClassDef, ast.Import, ast.ImportFrom, ast.Pass, ast.Break, ast.Continue,
                           ast.Global, ast.Nonlocal)):
            if isinstance(st, ast.Global):
                for n in st.names:
                    self.s.gwrites.append((f"{self.m.name}.{n}", st))
            return
        if isinstance(st, ast.Assign):
            v = self.av(st.value, env)
            for t in st.targets:
                self.assign(t, v, env, st, st.value)
            return
        if isinstance(st, ast.AnnAssign):
            if st.value is not None:
                self.assign(st.target, self.av(st.value, env), env, st, st.value)
            return
        if isinstance(st, ast.AugAssign):
            self.av(st.value, env)
            t = st.target
            if isinstance(t, ast.Name):
                for o in env.get(t.id, ()) or self.name_origins(t, env):
                    if o.arrayish or o.kind in ("global", "default") or o.path:
                        self.mutate(o, st, f"in-place `{_txt(st)}`")
                # numeric rebinding otherwise
            else:
                self.store_target(t, env, st)
            return
        if isinstance(st, ast.Delete):
            for t in st.targets:
                if isinstance(t, ast.Subscript):
                    self.store_target(t, env, st)
            return
        if isinstance(st, ast.Expr):
            self.av(st.value, env)
            return
        if isinstance(st, ast.Return):
            if st.value is not None:
                vals = st.value.elts if isinstance(st.value, ast.Tuple) else [st.value]
                for v in vals:
                    for o in self.av(v, env):
                        self.s.ret.add(o)
            return
        if isinstance(st, ast.If):
            self.av(st.test, env)
            e1, e2 = {k: set(v) for k, v in env.items()}, {k: set(v) for k, v in env.items()}
            self.block(st.body, e1)
            self.block(st.orelse, e2)
            t1, t2 = _terminates(st.body), _terminates(st.orelse)
            new = e2 if t1 and not t2 else e1 if t2 and not t1 else self.merge(e1, e2)
            env.clear()
            env.update(new)
            return
        if isinstance(st, (ast.For, ast.AsyncFor)):
            it = self.av(st.iter, env)
            elem = {o.step("[]") for o in it}
            if isinstance(st.iter, ast.Call) and isinstance(st.iter.func, ast.Name) and st.iter.func.id in ("enumerate", "zip", "reversed", "sorted", "list", "tuple", "iter"):
                elem = set()
                for a in st.iter.args:
                    elem |= {o.step("[]") for o in self.av(a, env)}
            for _ in range(2):
                self.bind_target(st.target, elem, env)
                e1 = {k: set(v) for k, v in env.items()}
                self.block(st.body, e1)
                new = self.merge(env, e1)
                env.clear()
                env.update(new)
            self.block(st.orelse, env)
            return
        if isinstance(st, ast.While):
            for _ in range(2):
                self.av(st.test, env)
                e1 = {k: set(v) for k, v in env.items()}
                self.block(st.body, e1)
                new = self.merge(env, e1)
                env.clear()
                env.update(new)
            self.block(st.orelse, env)
            return
        if isinstance(st, (ast.With, ast.AsyncWith)):
            for it in st.items:
                v = self.av(it.context_expr, env)
                if it.optional_vars is not None:
                    self.bind_target(it.optional_vars, set(), env)
            self.block(st.body, env)
            return
        if isinstance(st, ast.Try):
            e0 = {k: set(v) for k, v in env.items()}
            self.block(st.body, env)
            for h in st.handlers:
                eh = self.merge(e0, env)
                self.block(h.body, eh)
                new = self.merge(env, eh)
                env.clear()
                env.update(new)
            self.block(st.orelse, env)
            self.block(st.finalbody, env)
            return
        if isinstance(st, (ast.Raise, ast.Assert)):
            for ch in ast.iter_child_nodes(st):
                if isinstance(ch, ast.expr):
                    self.av(ch, env)
            return
        if isinstance(st, ast.Match):
            self.av(st.subject, env)
            for c in st.cases:
                self.block(c.body, env)
            return

    # ------------------------------------------------------------------------------------------------ assignments
    def bind_target(self, t, origins, env):
        if isinstance(t, ast.Name):
            env[t.id] = set(origins)
        elif isinstance(t, (ast.Tuple, ast.List)):
            for e in t.elts:
                self.bind_target(e.value if isinstance(e, ast.Starred) else e, origins, env)

    def assign(self, t, v, env, st, value_node):
        if isinstance(t, ast.Name):
            env[t.id] = set(v)
            gq = f"{self.m.name}.{t.id}"
            return
        if isinstance(t, (ast.Tuple, ast.List)):
            if isinstance(value_node, (ast.Tuple, ast.List)) and len(value_node.elts) == len(t.elts):
                for e, ve in zip(t.elts, value_node.elts):
                    self.assign(e, self.av(ve, env), env, st, ve)
            else:
                for e in t.elts:
                    self.bind_target(e.value if isinstance(e, ast.Starred) else e, {o.step("[]") if not o.path or o.path[-1] != "[]" else o for o in v}, env)
            return
        if isinstance(t, ast.Attribute):
            # x.a = v : a setattr on x (own state for self); remember what x.a may now be
            base = self.av(t.value, env)
            for o in base:
                if o.shallow:
                    continue  # attribute of a shallow copy: the copy's own slot
                if not (o.kind == "param" and self.is_method and o.name == self.params[0] and not o.path):
                    self.mutate(o, st, f"attribute store `{_txt(t)} = ...`")
            env[_txt(t)] = set(v)
            return
        if isinstance(t, ast.Subscript):
            self.store_target(t, env, st)
            return

    def store_target(self, t, env, st):
        """x[...] = v / x.a op= v / del x[...]"""
        base = t.value if isinstance(t, ast.Subscript) else t.value
        for o in self.av(base, env):
            self.mutate(o, st, f"store `{_txt(t)[:60]}`")

    # ------------------------------------------------------------------------------------------------ effects
    def own_state(self, o):
        return o.kind == "param" and self.is_method and o.name == self.params[0]

    def mutate(self, o, node, how, via=None):
        if o.kind == "param" and self.own_state(o):
            # the object's own state -- unless that state is known to alias something else (tracked through env keys)
            return
        kind = {"param": "E-param", "global": "E-global", "default": "E-default"}[o.kind]
        self.s.mut.append(Effect(kind, self.q, o, node, how, via))
        if o.kind == "global":
            self.s.gwrites.append((o.name, node))

    # ------------------------------------------------------------------------------------------------ expressions
    def name_origins(self, n, env):
        if n.id in env:
            return env[n.id]
        gq = f"{self.m.name}.{n.id}"
        if gq in self.globs:
            self.s.greads.append((gq, n))
            return {Origin("global", gq, arrayish=True)}
        # imported mutable global of another module:  from .x import CACHE
        d = self.m.aliases.get(n.id)
        if d and d.startswith("cryocat."):
            g2 = d[len("cryocat."):]
            if g2 in self.globs:
                self.s.greads.append((g2, n))
                return {Origin("global", g2, arrayish=True)}
        return set()

    def av(self, e, env):
        """origins the value of `e` may be / share memory with"""
        if e is None:
            return set()
        if isinstance(e, ast.Name):
            return set(self.name_origins(e, env))
        if isinstance(e, ast.Attribute):
            key = _txt(e)
            if key in env:
                return set(env[key])
            # module.GLOBAL / Class.ATTR
            d = self.prog.resolve(self.m, e)
            if d and d.startswith("cryocat."):
                g = d[len("cryocat."):]
                if g in self.globs:
                    self.s.greads.append((g, e))
                    return {Origin("global", g, arrayish=True)}
            if isinstance(e.value, ast.Name) and e.value.id in ("self", "cls") and self.owner:
                for cq in self.prog.mro(self.owner):
                    g = f"{cq}.{e.attr}"
                    if g in self.globs and not self._instance_assigns(e.attr):
                        self.s.greads.append((g, e))
                        return {Origin("global", g, arrayish=True)}
            base = self.av(e.value, env)
            if e.attr in VIEW_ATTRS:
                return {o.view(arrayish=e.attr in ("T", "values", "real", "imag", "flat")) for o in base}
            return {o.step(e.attr) for o in base}
        if isinstance(e, ast.Subscript):
            self.av(e.slice, env)
            base = self.av(e.value, env)
            # basic indexing: a view of (numpy) / an element of (list, dict) the same storage
            return {(o.view() if o.arrayish else o.step("[]")) for o in base}
        if isinstance(e, ast.Call):
            return self.call(e, env)
        if isinstance(e, ast.IfExp):
            self.av(e.test, env)
            return self.av(e.body, env) | self.av(e.orelse, env)
        if isinstance(e, ast.BoolOp):
            out = set()
            for v in e.values:
                out |= self.av(v, env)
            return out
        if isinstance(e, ast.NamedExpr):
            v = self.av(e.value, env)
            self.bind_target(e.target, v, env)
            return v
        if isinstance(e, ast.Starred):
            return self.av(e.value, env)
        if isinstance(e, (ast.Tuple, ast.List, ast.Set)):
            out = set()
            for x in e.elts:
                out |= {o for o in self.av(x, env)}
            # a fresh container holding references: mutation of an element reaches the origin, mutation of the container does not
            return {Origin(o.kind, o.name, o.path, True, False) for o in out}
        if isinstance(e, ast.Dict):
            for x in list(e.keys) + list(e.values):
                self.av(x, env)
            return set()
        if isinstance(e, (ast.ListComp, ast.SetComp, ast.GeneratorExp, ast.DictComp)):
            env2 = {k: set(v) for k, v in env.items()}
            for g in e.generators:
                it = self.av(g.iter, env2)
                self.bind_target(g.target, {o.step("[]") for o in it}, env2)
                for c in g.ifs:
                    self.av(c, env2)
            if isinstance(e, ast.DictComp):
                self.av(e.key, env2)
                self.av(e.value, env2)
            else:
                self.av(e.elt, env2)
            return set()
        if isinstance(e, ast.Lambda):
            return set()
        for ch in ast.iter_child_nodes(e):
            if isinstance(ch, ast.expr):
                self.av(ch, env)
        return set()  # arithmetic, comparisons, constants, f-strings: fresh values

    def _instance_assigns(self, attr):
        """does any method of the class hierarchy assign self.<attr> (then Class.<attr> is just a default)?"""
        for cq in self.prog.mro(self.owner):
            try:
                _, cn = self.prog.lookup(cq)
            except Exception:  # noqa
                continue
            for n in ast.walk(cn):
                if isinstance(n, (ast.Assign, ast.AugAssign, ast.AnnAssign)):
                    for t in (n.targets if isinstance(n, ast.Assign) else [n.target]):
                        if isinstance(t, ast.Attribute) and isinstance(t.value, ast.Name) and t.value.id == "self" and t.attr == attr:
                            return True
        return False

    # ------------------------------------------------------------------------------------------------ calls
    def callee_quals(self, node):
        """resolved repo callees of a call (possibly several for a method on an untyped receiver)"""
        f = node.func
        d = self.prog.resolve(self.m, f)
        if d:
            t = self.prog.repo_qual(d)
            if t is None and d.startswith("cryocat."):
                bits = d[len("cryocat."):].split(".")
                if len(bits) >= 3 and self.prog.has(".".join(bits[:-1])):
                    t = self.prog.find_method(".".join(bits[:-1]), bits[-1])
            if t is not None:
                try:
                    _, tn = self.prog.lookup(t)
                except Exception:  # noqa
                    tn = None
                if isinstance(tn, ast.ClassDef):
                    init = self.prog.find_method(t, "__init__")
                    return ([init] if init else []), "ctor"
                return [t], "func" if not self._is_bound(t) else "unbound"
            return [], "lib:" + d
        if isinstance(f, ast.Attribute):
            if isinstance(f.value, ast.Name) and f.value.id in ("self", "cls") and self.owner:
                t = self.prog.find_method(self.owner, f.attr)
                out = [t] if t else []
                for cq, cm, cn in self.prog.classes():
                    if cq != self.owner and self.owner in self.prog.mro(cq) and self.prog.has(f"{cq}.{f.attr}"):
                        out.append(f"{cq}.{f.attr}")
                if out:
                    return out, "method"
            cands = self.eff.methods_named(f.attr)
            if cands and f.attr not in MUT_METHODS and f.attr not in VIEW_METHODS and f.attr not in ("copy", "write", "read", "update", "fill", "load", "keys",
                                                                                                     "values", "items", "index", "count", "format"):
                return cands, "method"
            if cands and f.attr in ("write_out", "fill", "update_coordinates"):
                return cands, "method"
            return [], "attr"
        if isinstance(f, ast.Name):
            parts = self.q.split(".")
            for i in range(len(parts), 0, -1):
                cand = ".".join(parts[:i] + [f.id])
                if self.prog.has(cand):
                    return [cand], "func"
            return [], "name:" + f.id
        return [], "?"

    def _is_bound(self, q):
        return False

    def call(self, node, env):
        f = node.func
        args = [self.av(a.value if isinstance(a, ast.Starred) else a, env) for a in node.args]
        kw = {k.arg: self.av(k.value, env) for k in node.keywords}
        recv = self.av(f.value, env) if isinstance(f, ast.Attribute) else set()
        quals, how = self.callee_quals(node)
        # ---- library / builtin semantics
        if how.startswith("lib:"):
            d = how[4:]
            if "out" in kw:
                for o in kw["out"]:
                    self.mutate(o, node, f"`out=` of {d}")
            if d in MUT_FUNCS_ARG0 and args:
                for o in args[0]:
                    self.mutate(o, node, f"{d}(...) writes its first argument")
            if d in VIEW_FUNCS and args:
                return {o.view(arrayish=True) for o in args[0]}
            if d == "numpy.array" and args:
                cp = [k for k in node.keywords if k.arg == "copy"]
                if cp and isinstance(cp[0].value, ast.Constant) and cp[0].value.value in (False, None):
                    return {o.view(arrayish=True) for o in args[0]}
                return set()
            if d in SHALLOW_FUNCS and args:
                return {Origin(o.kind, o.name, o.path, True, o.arrayish) for o in args[0]}
            return set()
        if how.startswith("name:"):
            nm = how[5:]
            if nm in ("list", "tuple", "set", "dict", "sorted", "reversed", "enumerate", "zip", "iter", "frozenset") and args:
                out = set()
                for a in args:
                    out |= {Origin(o.kind, o.name, o.path, True, False) for o in a}
                return out
            if nm in ("next",) and args:
                return {o.step("[]") for o in args[0]}
            if nm in ("setattr",) and args:
                for o in args[0]:
                    if not o.shallow:
                        self.mutate(o, node, "setattr(...)")
            return set()
        if not quals:
            # method on a library object / unknown receiver
            if isinstance(f, ast.Attribute):
                a = f.attr
                inplace = any(k.arg == "inplace" and isinstance(k.value, ast.Constant) and k.value.value is True for k in node.keywords)
                if a in MUT_METHODS or inplace:
                    for o in recv:
                        if not (o.shallow and not o.path and a not in ()):
                            self.mutate(o, node, f"mutating call `.{a}({'inplace=True' if inplace else '...'})`")
                        elif o.shallow:
                            pass
                    if a in ("setdefault", "pop", "get", "popitem"):
                        return {o.step("[]") for o in recv}
                    return set()
                if a in VIEW_METHODS:
                    return {o.view() if a not in ("get", "item", "__getitem__") else o.step("[]") for o in recv}
                if a == "astype":
                    cp = [k for k in node.keywords if k.arg == "copy"]
                    if cp and isinstance(cp[0].value, ast.Constant) and cp[0].value.value is False:
                        return {o.view() for o in recv}
            return set()
        # ---- repo callees: apply summaries
        out = set()
        for q in quals:
            try:
                m2, fn2 = self.prog.func(q)
            except Exception:  # noqa
                continue
            s2 = self.eff.summary(q)
            a2 = fn2.args
            pnames = [x.arg for x in a2.posonlyargs + a2.args]
            bound = {}
            actual = list(args)
            is_m2 = len(q.split(".")) >= 3 and pnames and pnames[0] in ("self", "cls") and not any(
                isinstance(d, ast.Name) and d.id == "staticmethod" for d in fn2.decorator_list)
            if how == "ctor":
                bound[pnames[0]] = set()
                pn = pnames[1:]
            elif is_m2 and how in ("method",):
                bound[pnames[0]] = recv
                pn = pnames[1:]
            elif is_m2 and isinstance(f, ast.Attribute) and not self._receiver_is_class(f.value):
                bound[pnames[0]] = recv
                pn = pnames[1:]
            elif is_m2 and pnames[0] == "cls":
                bound[pnames[0]] = set()
                pn = pnames[1:]
            else:
                pn = pnames
            for p, a in zip(pn, actual):
                bound[p] = a
            if a2.vararg and len(actual) > len(pn):
                extra = set()
                for a in actual[len(pn):]:
                    extra |= a
                bound[a2.vararg.arg] = {Origin(o.kind, o.name, o.path, True, False) for o in extra}
            for k, v in kw.items():
                if k is not None:
                    bound[k] = v

            def mapo(o):
                if o.kind in ("global",):
                    return {o}
                if o.kind == "default":
                    # the callee's default object is used only when the caller passes nothing for that parameter
                    return {o} if o.name not in bound else set()
                res = set()
                for b in bound.get(o.name, ()):
                    if o.path:
                        path = b.path + o.path
                        res.add(Origin(b.kind, b.name, path, False, False))
                    else:
                        res.add(Origin(b.kind, b.name, b.path, b.shallow or o.shallow, b.arrayish or o.arrayish))
                return res

            for ef in s2.mut:
                if ef.origin.kind == "default" and ef.origin.name in bound:
                    continue
                for o in mapo(ef.origin):
                    if o.shallow and not ef.origin.path and not o.path and ef.origin.kind == "param" and False:
                        continue
                    self.mutate(o, node, ef.how, via=(ef.via or []) + [q] if isinstance(ef.via, list) else [q])
            for g, n_ in s2.greads:
                self.s.greads.append((g, node))
            for g, n_ in s2.gwrites:
                self.s.gwrites.append((g, node))
            if how == "ctor":
                continue
            for o in s2.ret:
                out |= mapo(o)
        return out

    def _receiver_is_class(self, n):
        d = self.prog.resolve(self.m, n)
        if d and d.startswith("cryocat."):
            q = d[len("cryocat."):]
            try:
                self.prog.cls(q)
                return True
            except Exception:  # noqa
                return False
        return isinstance(n, ast.Name) and n.id == "cls"


def _terminates(body):
    return bool(body) and isinstance(body[-1], (ast.Return, ast.Raise, ast.Continue, ast.Break))


def _txt(n):
    try:
        return " ".join(ast.unparse(n).split())
    except Exception:  # noqa
        return "<?>"
