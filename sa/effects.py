"""Effect / alias analysis (E16): hidden state and caller-owned inputs.

A property that must hold *for every history of calls* needs its functions to be functions of their arguments: the
result of a call may not depend on earlier calls, and a call may not change the objects the caller handed in (the next
call on the same object would otherwise see another input).  This module decides, from the syntax tree and the resolved
call graph only, for every function in the closure of a property's entry points:

  E-param    an in-place write (subscript/attribute store, augmented assignment on an array, mutating method, `out=`,
             inplace=True, or a callee that does one of these) reaches an object that may be (part of) a non-self parameter
  E-global   ... reaches a module-level or class-level mutable object
  E-default  ... reaches a mutable default argument value
  E-share    the function returns an object that may be (part of) module/class-level state (hands out shared storage)
  E-state    the function reads a module/class-level mutable container that some function of the program writes
             (memoisation / hidden state); classified: file-keyed cache, incomplete memo key, shared result
  E-cache    functools.lru_cache / cache on a function of the closure

The analysis is a forward, flow-sensitive (statement order, branch merge by union, loops twice) may-alias analysis over
*origins*: (kind, name, path, shallow) with kind in {param, global, default}, path = attribute / element steps (<= 3).
Function calls use interprocedural summaries (which parameters may be returned / mutated), computed on demand with a
recursion guard.  Copies (x.copy(), copy.deepcopy, np.array, arithmetic, constructors) produce fresh objects; views
(np.asarray, reshape, .T, basic indexing, attribute access) keep the origin; copy.copy keeps the attributes' origins.

Sites confirmed by reading on today's tree are the reference: they are listed in spec/effects_baseline.py (function,
kind, root) with a reason, everything else is reported."""
from __future__ import annotations

import ast

from .srcmodel import AnchorMissing

MUT_METHODS = {"append", "extend", "insert", "remove", "pop", "clear", "sort", "reverse", "update", "add", "discard", "setdefault",
               "fill", "put", "itemset", "resize", "popitem", "setflags", "__setitem__", "appendleft", "popleft", "partition", "byteswap"}
# receiver-preserving (view / same object) methods and functions
VIEW_METHODS = {"reshape", "view", "squeeze", "ravel", "transpose", "swapaxes", "get", "setdefault", "__getitem__", "item"}
VIEW_ATTRS = {"T", "values", "real", "imag", "flat", "loc", "iloc", "at", "iat", "data"}
VIEW_FUNCS = {"numpy.asarray", "numpy.asanyarray", "numpy.atleast_1d", "numpy.atleast_2d", "numpy.atleast_3d", "numpy.ascontiguousarray",
              "numpy.squeeze", "numpy.reshape", "numpy.ravel", "numpy.transpose", "numpy.swapaxes", "numpy.moveaxis", "numpy.asfortranarray",
              "numpy.expand_dims", "numpy.broadcast_to", "numpy.flip", "numpy.fliplr", "numpy.flipud", "numpy.rollaxis", "numpy.diagonal",
              "numpy.require"}
ARRAYISH_FUNCS = VIEW_FUNCS
MUT_FUNCS_ARG0 = {"numpy.put", "numpy.place", "numpy.copyto", "numpy.fill_diagonal", "random.shuffle", "numpy.random.shuffle", "numpy.putmask",
                  "numpy.put_along_axis", "numpy.add.at", "numpy.subtract.at", "numpy.multiply.at", "numpy.maximum.at", "numpy.minimum.at"}
SHALLOW_FUNCS = {"copy.copy"}
MUTABLE_CTORS = {"dict", "list", "set", "collections.defaultdict", "collections.OrderedDict", "collections.deque", "defaultdict", "OrderedDict",
                 "numpy.zeros", "numpy.ones", "numpy.array", "numpy.empty", "numpy.full", "numpy.asarray", "numpy.arange", "pandas.DataFrame",
                 "pandas.Series", "bytearray", "numpy.eye", "numpy.identity", "collections.Counter", "Counter", "deque", "weakref.WeakValueDictionary"}
# method names that also exist on library objects (list, dict, ndarray, DataFrame, file): an untyped receiver with one of
# these names is taken to be the library object, not a repository class
LIBRARY_METHOD_NAMES = MUT_METHODS | VIEW_METHODS | {"copy", "write", "read", "keys", "values", "items", "index", "count", "format", "load", "save",
                                                     "close", "open", "split", "join", "strip", "replace", "apply", "map", "merge", "round", "sum",
                                                     "mean", "min", "max", "astype", "tolist", "to_numpy", "drop", "rename", "filter", "plot", "show"}
CACHE_DECOS = {"functools.lru_cache", "functools.cache", "functools.cached_property", "lru_cache", "cache", "cached_property"}
MAXPATH = 3


class Origin(tuple):
    """(kind, name, path, shallow)"""
    __slots__ = ()

    def __new__(cls, kind, name, path=(), shallow=False, arrayish=False):
        return tuple.__new__(cls, (kind, name, tuple(path)[:MAXPATH], bool(shallow), bool(arrayish)))

    kind = property(lambda s: s[0])
    name = property(lambda s: s[1])
    path = property(lambda s: s[2])
    shallow = property(lambda s: s[3])
    arrayish = property(lambda s: s[4])

    def step(self, a):
        return Origin(self.kind, self.name, self.path + (a,), False, False)

    def view(self, arrayish=False):
        return Origin(self.kind, self.name, self.path, self.shallow, self.arrayish or arrayish)

    def root(self):
        return f"{self.kind}:{self.name}" + ("." + ".".join(self.path) if self.path else "")


class Effect:
    def __init__(self, kind, fn, origin, node, how, via=None, op="?", src=None):
        self.kind, self.fn, self.origin, self.node, self.how, self.via = kind, fn, origin, node, how, via
        self.op, self.src = op, src or fn  # name-free description of the write and the function that contains it

    def key(self):
        """(reporting function, kind, root object, function containing the write, kind of write) -- no local names, no lines"""
        return (self.fn, self.kind, self.origin.root(), self.src, self.op)


class _USet(list):
    """insertion-ordered list without duplicates (keyed by name and node identity)"""

    def append(self, item):
        k = (item[0], id(item[1]))
        if not hasattr(self, "_k"):
            self._k = set()
        if k not in self._k:
            self._k.add(k)
            list.append(self, item)


class Summary:
    def __init__(self):
        self.ret = set()        # origins the result may be (rooted in own params / globals / defaults)
        self.mut = []           # Effect list (origin rooted in own params / globals / defaults)
        self.greads = _USet()   # (global name, node)
        self.gwrites = _USet()  # (global name, node)
        self.done = False
        self._seen = set()
        self.callees = set()


class Effects:
    def __init__(self, prog):
        self.prog = prog
        self.summaries = {}
        self.stack = []
        self._globals = None
        self._methods = None

    # ------------------------------------------------------------------------------------------ program-level tables
    def mutable_globals(self):
        """module-level and class-level names bound to a mutable container: 'mod.NAME' / 'mod.Class.NAME' -> value node"""
        if self._globals is not None:
            return self._globals
        out = {}
        for mn, m in self.prog.modules.items():
            def scan(body, prefix):
                for st in body:
                    tgts, val = [], None
                    if isinstance(st, ast.Assign):
                        tgts, val = [t for t in st.targets if isinstance(t, ast.Name)], st.value
                    elif isinstance(st, ast.AnnAssign) and isinstance(st.target, ast.Name) and st.value is not None:
                        tgts, val = [st.target], st.value
                    elif isinstance(st, ast.ClassDef):
                        scan(st.body, prefix + st.name + ".")
                        continue
                    elif isinstance(st, (ast.If, ast.Try)):
                        scan(st.body, prefix)
                        continue
                    for t in tgts:
                        if self._is_mutable_literal(m, val):
                            out[f"{mn}.{prefix}{t.id}"] = val
            scan(m.tree.body, "")
        self._globals = out
        return out

    def all_globals(self):
        """every module-level / class-level simple assignment: 'mod.NAME' / 'mod.Class.NAME' -> value node"""
        if getattr(self, "_all_globals", None) is not None:
            return self._all_globals
        out = {}
        for mn, m in self.prog.modules.items():
            def scan(body, prefix):
                for st in body:
                    if isinstance(st, ast.Assign):
                        for t in st.targets:
                            if isinstance(t, ast.Name):
                                out[f"{mn}.{prefix}{t.id}"] = st.value
                    elif isinstance(st, ast.AnnAssign) and isinstance(st.target, ast.Name) and st.value is not None:
                        out[f"{mn}.{prefix}{st.target.id}"] = st.value
                    elif isinstance(st, ast.ClassDef):
                        scan(st.body, prefix + st.name + ".")
            scan(m.tree.body, "")
        self._all_globals = out
        return out

    def _is_mutable_literal(self, m, val):
        if isinstance(val, (ast.List, ast.Dict, ast.Set, ast.ListComp, ast.DictComp, ast.SetComp)):
            return True
        if isinstance(val, ast.Call):
            d = self.prog.resolve(m, val.func) or (val.func.id if isinstance(val.func, ast.Name) else None)
            return d in MUTABLE_CTORS
        return False

    def methods_named(self, name):
        if self._methods is None:
            self._methods = {}
            for q, m, fn in self.prog.functions():
                parts = q.split(".")
                if len(parts) >= 3:
                    self._methods.setdefault(parts[-1], []).append(q)
        return self._methods.get(name, [])

    # ------------------------------------------------------------------------------------------ per-function analysis
    def summary(self, q, selfcls=None):
        """`selfcls`: the class of the receiver when known (constructor call, self-call from a method analysed for that
        class): self.method() then resolves through that class' MRO instead of every override in the hierarchy"""
        key = (q, selfcls)
        if key in self.summaries and self.summaries[key].done:
            return self.summaries[key]
        if key in self.stack:
            return self.summaries.setdefault(key, Summary())  # recursion: current approximation
        s = self.summaries.setdefault(key, Summary())
        self.stack.append(key)
        try:
            _FnPass(self, q, s, selfcls).run()
        finally:
            self.stack.pop()
        s.done = True
        return s


class _FnPass:
    def __init__(self, eff, q, summ, selfcls=None):
        self.eff, self.prog, self.q, self.s = eff, eff.prog, q, summ
        self.m, self.fn = self.prog.func(q)
        self.owner = self.prog.enclosing_class(q)
        self.selfcls = selfcls if (selfcls and self.owner and self.owner in self.prog.mro(selfcls)) else None
        a = self.fn.args
        self.params = [x.arg for x in a.posonlyargs + a.args + a.kwonlyargs]
        if a.vararg:
            self.params.append(a.vararg.arg)
        if a.kwarg:
            self.params.append(a.kwarg.arg)
        self.is_method = bool(self.owner) and self.params and self.params[0] in ("self", "cls") and not any(
            isinstance(d, ast.Name) and d.id == "staticmethod" for d in self.fn.decorator_list)
        self.defaults = {}
        pos = a.posonlyargs + a.args
        for p, d in zip(pos[len(pos) - len(a.defaults):], a.defaults):
            self.defaults[p.arg] = d
        for p, d in zip(a.kwonlyargs, a.kw_defaults):
            if d is not None:
                self.defaults[p.arg] = d
        self.arrayish_names = self._arrayish_evidence()
        self.frameish_names = {n.value.id for n in ast.walk(self.fn) if isinstance(n, ast.Attribute) and isinstance(n.value, ast.Name)
                               and n.attr in ("loc", "iloc", "columns", "iterrows", "itertuples", "sort_values", "reset_index", "groupby", "to_numpy")}
        self.globs = eff.mutable_globals()

    def _arrayish_evidence(self):
        ev = set()
        for n in ast.walk(self.fn):
            if isinstance(n, ast.Attribute) and isinstance(n.value, ast.Name) and n.attr in ("shape", "ndim", "dtype", "size", "T", "astype", "reshape"):
                ev.add(n.value.id)
            if isinstance(n, ast.Subscript) and isinstance(n.value, ast.Name) and isinstance(n.slice, (ast.Tuple, ast.Slice)):
                ev.add(n.value.id)
        return ev

    # ---------------------------------------------------------------------------------------------------- driver
    def run(self):
        env = {}
        for p in self.params:
            if self.is_method and p == self.params[0]:
                env[p] = {Origin("param", p)}
                continue
            o = {Origin("param", p, arrayish=p in self.arrayish_names)}
            d = self.defaults.get(p)
            if d is not None and self.eff._is_mutable_literal(self.m, d):
                o.add(Origin("default", p, arrayish=True))
            env[p] = o
        self.block(self.fn.body, env)

    def block(self, body, env):
        for st in body:
            self.stmt(st, env)

    @staticmethod
    def merge(a, b):
        out = dict(a)
        for k, v in b.items():
            out[k] = set(out.get(k, set())) | set(v)
        return out

    def stmt(self, st, env):
        if isinstance(st, (ast.FunctionDef, ast.AsyncFunctionDef, ast.ClassDef, ast.Import, ast.ImportFrom, ast.Pass, ast.Break, ast.Continue,
                           ast.Global, ast.Nonlocal)):
            if isinstance(st, ast.Global):
                for n in st.names:
                    self.s.gwrites.append((f"{self.m.name}.{n}", st))
            return
        if isinstance(st, ast.Assign):
            v = self.av(st.value, env)
            for t in st.targets:
                self.assign(t, v, env, st, st.value)
            return
        if isinstance(st, ast.AnnAssign):
            if st.value is not None:
                self.assign(st.target, self.av(st.value, env), env, st, st.value)
            return
        if isinstance(st, ast.AugAssign):
            self.av(st.value, env)
            t = st.target
            if isinstance(t, ast.Name):
                for o in env.get(t.id, ()) or self.name_origins(t, env):
                    if o.arrayish or o.kind in ("global", "default") or o.path or (o.kind == "param" and (self._used_as_array(t.id) or self._used_as_array(o.name))):
                        self.mutate(o, st, f"in-place `{_txt(st)}`", op="aug")
                # numeric rebinding otherwise
            else:
                self.store_target(t, env, st)
            return
        if isinstance(st, ast.Delete):
            for t in st.targets:
                if isinstance(t, ast.Subscript):
                    self.store_target(t, env, st)
            return
        if isinstance(st, ast.Expr):
            self.av(st.value, env)
            return
        if isinstance(st, ast.Return):
            if st.value is not None:
                vals = st.value.elts if isinstance(st.value, ast.Tuple) else [st.value]
                for v in vals:
                    for o in self.av(v, env):
                        self.s.ret.add(o)
            return
        if isinstance(st, ast.If):
            self.av(st.test, env)
            e1, e2 = {k: set(v) for k, v in env.items()}, {k: set(v) for k, v in env.items()}
            self.block(st.body, e1)
            self.block(st.orelse, e2)
            t1, t2 = _terminates(st.body), _terminates(st.orelse)
            new = e2 if t1 and not t2 else e1 if t2 and not t1 else self.merge(e1, e2)
            env.clear()
            env.update(new)
            return
        if isinstance(st, (ast.For, ast.AsyncFor)):
            it = self.av(st.iter, env)
            elem = {o.step("[]") for o in it}
            if isinstance(st.iter, ast.Call) and isinstance(st.iter.func, ast.Name) and st.iter.func.id in ("enumerate", "zip", "reversed", "sorted", "list", "tuple", "iter"):
                elem = set()
                for a in st.iter.args:
                    elem |= {o.step("[]") for o in self.av(a, env)}
            for _ in range(2):
                self.bind_target(st.target, elem, env)
                e1 = {k: set(v) for k, v in env.items()}
                self.block(st.body, e1)
                new = self.merge(env, e1)
                env.clear()
                env.update(new)
            self.block(st.orelse, env)
            return
        if isinstance(st, ast.While):
            for _ in range(2):
                self.av(st.test, env)
                e1 = {k: set(v) for k, v in env.items()}
                self.block(st.body, e1)
                new = self.merge(env, e1)
                env.clear()
                env.update(new)
            self.block(st.orelse, env)
            return
        if isinstance(st, (ast.With, ast.AsyncWith)):
            for it in st.items:
                v = self.av(it.context_expr, env)
                if it.optional_vars is not None:
                    self.bind_target(it.optional_vars, set(), env)
            self.block(st.body, env)
            return
        if isinstance(st, ast.Try):
            e0 = {k: set(v) for k, v in env.items()}
            self.block(st.body, env)
            for h in st.handlers:
                eh = self.merge(e0, env)
                self.block(h.body, eh)
                new = self.merge(env, eh)
                env.clear()
                env.update(new)
            self.block(st.orelse, env)
            self.block(st.finalbody, env)
            return
        if isinstance(st, (ast.Raise, ast.Assert)):
            for ch in ast.iter_child_nodes(st):
                if isinstance(ch, ast.expr):
                    self.av(ch, env)
            return
        if isinstance(st, ast.Match):
            self.av(st.subject, env)
            for c in st.cases:
                self.block(c.body, env)
            return

    def _used_as_array(self, name):
        """the function treats `name` as an array: it is indexed with a slice / a mask / several indices, asked for its shape, or handed to np.where & co.
        (an augmented assignment on such a name updates the object in place; on a number it would rebind the name)"""
        for n in ast.walk(self.fn):
            if isinstance(n, ast.Subscript) and isinstance(n.value, ast.Name) and n.value.id == name and isinstance(n.slice, (ast.Slice, ast.Tuple, ast.Compare, ast.Name)):
                return True
            if isinstance(n, ast.Attribute) and isinstance(n.value, ast.Name) and n.value.id == name and n.attr in ("shape", "dtype", "ndim", "T", "size", "astype", "reshape"):
                return True
            if isinstance(n, ast.Call) and isinstance(n.func, ast.Attribute) and n.func.attr in ("where", "flatnonzero", "nonzero", "count_nonzero", "logical_and", "logical_or", "logical_not") \
                    and any(isinstance(a, ast.Name) and a.id == name for a in n.args):
                return True
        return False

    # ------------------------------------------------------------------------------------------------ assignments
    def bind_target(self, t, origins, env):
        if isinstance(t, ast.Name):
            env[t.id] = set(origins)
        elif isinstance(t, (ast.Tuple, ast.List)):
            for e in t.elts:
                self.bind_target(e.value if isinstance(e, ast.Starred) else e, origins, env)

    def assign(self, t, v, env, st, value_node):
        if isinstance(t, ast.Name):
            env[t.id] = set(v)
            gq = f"{self.m.name}.{t.id}"
            return
        if isinstance(t, (ast.Tuple, ast.List)):
            if isinstance(value_node, (ast.Tuple, ast.List)) and len(value_node.elts) == len(t.elts):
                for e, ve in zip(t.elts, value_node.elts):
                    self.assign(e, self.av(ve, env), env, st, ve)
            else:
                for e in t.elts:
                    self.bind_target(e.value if isinstance(e, ast.Starred) else e, {o.step("[]") if not o.path or o.path[-1] != "[]" else o for o in v}, env)
            return
        if isinstance(t, ast.Attribute):
            # x.a = v : a setattr on x (own state for self); remember what x.a may now be
            base = self.av(t.value, env)
            for o in base:
                if o.shallow:
                    continue  # attribute of a shallow copy: the copy's own slot
                if not (o.kind == "param" and self.is_method and o.name == self.params[0] and not o.path):
                    self.mutate(o, st, f"attribute store `{_txt(t)} = ...`", op="setattr:" + t.attr)
            env[_txt(t)] = set(v)
            return
        if isinstance(t, ast.Subscript):
            self.store_target(t, env, st)
            return

    def store_target(self, t, env, st):
        """x[...] = v / x.a op= v / del x[...]"""
        base = t.value if isinstance(t, ast.Subscript) else t.value
        for o in self.av(base, env):
            for op_ in _store_ops(t):
                self.mutate(o, st, f"store `{_txt(t)[:60]}`", op=op_)

    # ------------------------------------------------------------------------------------------------ effects
    def own_state(self, o):
        return o.kind == "param" and self.is_method and o.name == self.params[0]

    def mutate(self, o, node, how, via=None, op="?", src=None):
        if o.kind == "param" and self.own_state(o):
            # the object's own state -- unless that state is known to alias something else (tracked through env keys)
            return
        kind = {"param": "E-param", "global": "E-global", "default": "E-default"}[o.kind]
        k_ = (kind, o[:3], id(node), op, src)
        if k_ in self.s._seen:
            return
        self.s._seen.add(k_)
        self.s.mut.append(Effect(kind, self.q, o, node, how, via, op, src or self.q))
        if o.kind == "global":
            self.s.gwrites.append((o.name, node))

    # ------------------------------------------------------------------------------------------------ expressions
    def name_origins(self, n, env):
        if n.id in env:
            return env[n.id]
        gq = f"{self.m.name}.{n.id}"
        if gq in self.globs:
            self.s.greads.append((gq, n))
            return {Origin("global", gq, arrayish=self._arrayish_global(gq))}
        # imported mutable global of another module:  from .x import CACHE
        d = self.m.aliases.get(n.id)
        if d and d.startswith("cryocat."):
            g2 = d[len("cryocat."):]
            if g2 in self.globs:
                self.s.greads.append((g2, n))
                return {Origin("global", g2, arrayish=self._arrayish_global(g2))}
        return set()

    def av(self, e, env):
        """origins the value of `e` may be / share memory with"""
        if e is None:
            return set()
        if isinstance(e, ast.Name):
            return set(self.name_origins(e, env))
        if isinstance(e, ast.Attribute):
            key = _txt(e)
            if key in env:
                return set(env[key])
            # module.GLOBAL / Class.ATTR
            d = self.prog.resolve(self.m, e)
            if d and d.startswith("cryocat."):
                g = d[len("cryocat."):]
                if g in self.globs:
                    self.s.greads.append((g, e))
                    return {Origin("global", g, arrayish=self._arrayish_global(g))}
            if isinstance(e.value, ast.Name) and e.value.id in ("self", "cls") and self.owner:
                for cq in self.prog.mro(self.owner):
                    g = f"{cq}.{e.attr}"
                    if g in self.globs and not self._instance_assigns(e.attr):
                        self.s.greads.append((g, e))
                        return {Origin("global", g, arrayish=self._arrayish_global(g))}
            base = self.av(e.value, env)
            if e.attr in VIEW_ATTRS:
                return {o.view(arrayish=e.attr in ("T", "values", "real", "imag", "flat")) for o in base}
            return {o.step(e.attr) for o in base}
        if isinstance(e, ast.Subscript):
            self.av(e.slice, env)
            if isinstance(e.value, ast.Attribute) and e.value.attr in ("loc", "iloc", "at", "iat"):
                self.av(e.value.value, env)
                return set()  # pandas (copy-on-write): a selection never shares storage with the table
            base = self.av(e.value, env)
            basic = _basic_index(e.slice)
            out = set()
            for o in base:
                if (o.path and o.path[-1] == "df") or (isinstance(e.value, ast.Name) and e.value.id in self.frameish_names):
                    continue  # df[...] : a copy under copy-on-write
                if o.arrayish:
                    if basic:
                        out.add(o.view())  # basic slicing: a view
                    # integer / mask / fancy indexing: scalar or copy
                else:
                    out.add(o.step("[]"))  # element of a list / dict / unknown container
            return out
        if isinstance(e, ast.Call):
            return self.call(e, env)
        if isinstance(e, ast.IfExp):
            self.av(e.test, env)
            return self.av(e.body, env) | self.av(e.orelse, env)
        if isinstance(e, ast.BoolOp):
            out = set()
            for v in e.values:
                out |= self.av(v, env)
            return out
        if isinstance(e, ast.NamedExpr):
            v = self.av(e.value, env)
            self.bind_target(e.target, v, env)
            return v
        if isinstance(e, ast.Starred):
            return self.av(e.value, env)
        if isinstance(e, (ast.Tuple, ast.List, ast.Set)):
            out = set()
            for x in e.elts:
                out |= {o for o in self.av(x, env)}
            # a fresh container holding references: mutation of an element reaches the origin, mutation of the container does not
            return {Origin(o.kind, o.name, o.path, True, False) for o in out}
        if isinstance(e, ast.Dict):
            for x in list(e.keys) + list(e.values):
                self.av(x, env)
            return set()
        if isinstance(e, (ast.ListComp, ast.SetComp, ast.GeneratorExp, ast.DictComp)):
            env2 = {k: set(v) for k, v in env.items()}
            for g in e.generators:
                it = self.av(g.iter, env2)
                self.bind_target(g.target, {o.step("[]") for o in it}, env2)
                for c in g.ifs:
                    self.av(c, env2)
            if isinstance(e, ast.DictComp):
                self.av(e.key, env2)
                self.av(e.value, env2)
            else:
                self.av(e.elt, env2)
            return set()
        if isinstance(e, ast.Lambda):
            return set()
        for ch in ast.iter_child_nodes(e):
            if isinstance(ch, ast.expr):
                self.av(ch, env)
        return set()  # arithmetic, comparisons, constants, f-strings: fresh values

    def _arrayish_global(self, g):
        """a module/class-level list / dict / set holds references to its elements (G[k] is the stored object itself); only other values
        (arrays) are indexed into views or copies"""
        v = self.globs.get(g)
        if isinstance(v, (ast.Dict, ast.List, ast.Set, ast.DictComp, ast.ListComp, ast.SetComp, ast.Tuple)):
            return False
        if isinstance(v, ast.Call):
            f = v.func.attr if isinstance(v.func, ast.Attribute) else v.func.id if isinstance(v.func, ast.Name) else ""
            if f in ("dict", "list", "set", "defaultdict", "OrderedDict", "deque", "WeakValueDictionary", "Counter"):
                return False
        return True

    def _instance_assigns(self, attr):
        """does any method of the class hierarchy assign self.<attr> (then Class.<attr> is just a default)?"""
        for cq in self.prog.mro(self.owner):
            try:
                _, cn = self.prog.lookup(cq)
            except Exception:  # noqa
                continue
            for n in ast.walk(cn):
                if isinstance(n, (ast.Assign, ast.AugAssign, ast.AnnAssign)):
                    for t in (n.targets if isinstance(n, ast.Assign) else [n.target]):
                        if isinstance(t, ast.Attribute) and isinstance(t.value, ast.Name) and t.value.id == "self" and t.attr == attr:
                            return True
        return False

    # ------------------------------------------------------------------------------------------------ calls
    def callee_quals(self, node):
        """resolved repo callees of a call: ([(qual, receiver class or None)], how)"""
        f = node.func
        d = self.prog.resolve(self.m, f)
        if d:
            t = self.prog.repo_qual(d)
            cls_of = None
            if t is None and d.startswith("cryocat."):
                bits = d[len("cryocat."):].split(".")
                if len(bits) >= 3 and self.prog.has(".".join(bits[:-1])):
                    cls_of = ".".join(bits[:-1])
                    t = self.prog.find_method(cls_of, bits[-1])
            if t is not None:
                try:
                    _, tn = self.prog.lookup(t)
                except Exception:  # noqa
                    tn = None
                if isinstance(tn, ast.ClassDef):
                    init = self.prog.find_method(t, "__init__")
                    return ([(init, t)] if init else []), "ctor"
                own = self.prog.enclosing_class(t)
                return [(t, cls_of or own)], "func"
            return [], "lib:" + d
        if isinstance(f, ast.Attribute):
            if isinstance(f.value, ast.Name) and f.value.id in ("self", "cls") and self.owner:
                recv_cls = self.selfcls or self.owner
                out = []
                t = self.prog.find_method(recv_cls, f.attr)
                if t:
                    out.append((t, recv_cls))
                for cq, cm, cn in self.prog.classes():
                    if cq != recv_cls and recv_cls in self.prog.mro(cq) and self.prog.has(f"{cq}.{f.attr}"):
                        out.append((f"{cq}.{f.attr}", cq))
                if out:
                    return out, "method"
            cands = self.eff.methods_named(f.attr)
            if cands and f.attr not in LIBRARY_METHOD_NAMES:
                return [(c, self.prog.enclosing_class(c)) for c in cands], "method"
            return [], "attr"
        if isinstance(f, ast.Name):
            parts = self.q.split(".")
            for i in range(len(parts), 0, -1):
                cand = ".".join(parts[:i] + [f.id])
                if self.prog.has(cand):
                    try:
                        self.prog.func(cand)
                    except Exception:  # noqa
                        continue
                    return [(cand, None)], "func"
            return [], "name:" + f.id
        return [], "?"

    def _is_bound(self, q):
        return False

    def call(self, node, env):
        f = node.func
        args = [self.av(a.value if isinstance(a, ast.Starred) else a, env) for a in node.args]
        kw = {k.arg: self.av(k.value, env) for k in node.keywords}
        recv = self.av(f.value, env) if isinstance(f, ast.Attribute) else set()
        quals, how = self.callee_quals(node)
        # ---- library / builtin semantics
        if how.startswith("lib:"):
            d = how[4:]
            if "out" in kw:
                for o in kw["out"]:
                    self.mutate(o, node, f"`out=` of {d}", op="out:" + d)
            if d in MUT_FUNCS_ARG0 and args:
                for o in args[0]:
                    self.mutate(o, node, f"{d}(...) writes its first argument", op="call:" + d)
            if d in VIEW_FUNCS and args:
                return {o.view(arrayish=True) for o in args[0]}
            if d == "numpy.array" and args:
                cp = [k for k in node.keywords if k.arg == "copy"]
                if cp and isinstance(cp[0].value, ast.Constant) and cp[0].value.value in (False, None):
                    return {o.view(arrayish=True) for o in args[0]}
                return set()
            if d in SHALLOW_FUNCS and args:
                return {Origin(o.kind, o.name, o.path, True, o.arrayish) for o in args[0]}
            return set()
        if how.startswith("name:"):
            nm = how[5:]
            if nm in ("list", "tuple", "set", "dict", "sorted", "reversed", "enumerate", "zip", "iter", "frozenset") and args:
                out = set()
                for a in args:
                    out |= {Origin(o.kind, o.name, o.path, True, False) for o in a}
                return out
            if nm in ("next",) and args:
                return {o.step("[]") for o in args[0]}
            if nm in ("setattr",) and args:
                for o in args[0]:
                    if not o.shallow:
                        self.mutate(o, node, "setattr(...)", op="setattr:*")
            return set()
        if not quals:
            # method on a library object / unknown receiver
            if isinstance(f, ast.Attribute):
                a = f.attr
                inplace = any(k.arg == "inplace" and isinstance(k.value, ast.Constant) and k.value.value is True for k in node.keywords)
                if a in MUT_METHODS or inplace:
                    for o in recv:
                        if not o.shallow:  # a shallow copy (list(x), sorted(x), copy.copy(x)) is a new container whatever x was a part of; its ELEMENTS are shared (step resets the flag)
                            self.mutate(o, node, f"mutating call `.{a}({'inplace=True' if inplace else '...'})`", op="call:." + a)
                        elif o.shallow:
                            pass
                    if a in ("setdefault", "pop", "get", "popitem"):
                        return {o.step("[]") for o in recv}
                    return set()
                if a in VIEW_METHODS:
                    return {o.view() if a not in ("get", "item", "__getitem__") else o.step("[]") for o in recv}
                if a == "astype":
                    cp = [k for k in node.keywords if k.arg == "copy"]
                    if cp and isinstance(cp[0].value, ast.Constant) and cp[0].value.value is False:
                        return {o.view() for o in recv}
            return set()
        # ---- repo callees: apply summaries
        out = set()
        for q, scls in quals:
            try:
                m2, fn2 = self.prog.func(q)
            except Exception:  # noqa
                continue
            self.s.callees.add((q, scls))
            s2 = self.eff.summary(q, scls)
            a2 = fn2.args
            pnames = [x.arg for x in a2.posonlyargs + a2.args]
            bound = {}
            actual = list(args)
            is_m2 = len(q.split(".")) >= 3 and pnames and pnames[0] in ("self", "cls") and not any(
                isinstance(d, ast.Name) and d.id == "staticmethod" for d in fn2.decorator_list)
            if how == "ctor":
                bound[pnames[0]] = set()
                pn = pnames[1:]
            elif is_m2 and how in ("method",):
                bound[pnames[0]] = recv
                pn = pnames[1:]
            elif is_m2 and isinstance(f, ast.Attribute) and not self._receiver_is_class(f.value):
                bound[pnames[0]] = recv
                pn = pnames[1:]
            elif is_m2 and pnames[0] == "cls":
                bound[pnames[0]] = set()
                pn = pnames[1:]
            else:
                pn = pnames
            for p, a in zip(pn, actual):
                bound[p] = a
            if a2.vararg and len(actual) > len(pn):
                extra = set()
                for a in actual[len(pn):]:
                    extra |= a
                bound[a2.vararg.arg] = {Origin(o.kind, o.name, o.path, True, False) for o in extra}
            for k, v in kw.items():
                if k is not None:
                    bound[k] = v

            def mapo(o):
                if o.kind in ("global",):
                    return {o}
                if o.kind == "default":
                    # the callee's default object is used only when the caller passes nothing for that parameter
                    return {o} if o.name not in bound else set()
                res = set()
                for b in bound.get(o.name, ()):
                    if o.path:
                        path = b.path + o.path
                        res.add(Origin(b.kind, b.name, path, False, False))
                    else:
                        res.add(Origin(b.kind, b.name, b.path, b.shallow or o.shallow, b.arrayish or o.arrayish))
                return res

            for ef in s2.mut:
                if ef.origin.kind == "default" and ef.origin.name in bound:
                    continue
                for o in mapo(ef.origin):
                    if o.shallow and not ef.origin.path and not o.path and ef.origin.kind == "param" and False:
                        continue
                    self.mutate(o, node, ef.how, via=(ef.via or []) + [q], op=ef.op, src=ef.src)
            if how == "ctor":
                continue
            for o in s2.ret:
                out |= mapo(o)
        return out

    def _receiver_is_class(self, n):
        d = self.prog.resolve(self.m, n)
        if d and d.startswith("cryocat."):
            q = d[len("cryocat."):]
            try:
                self.prog.cls(q)
                return True
            except Exception:  # noqa
                return False
        return isinstance(n, ast.Name) and n.id == "cls"


def _basic_index(sl):
    """numpy basic indexing (slices, integers constants, Ellipsis, None): the result is a view"""
    parts = sl.elts if isinstance(sl, ast.Tuple) else [sl]
    if not any(isinstance(p_, ast.Slice) for p_ in parts):
        return False
    for p_ in parts:
        if isinstance(p_, ast.Slice):
            continue
        if isinstance(p_, ast.Constant) and (p_.value is None or p_.value is Ellipsis or isinstance(p_.value, int)):
            continue
        if isinstance(p_, ast.UnaryOp) and isinstance(p_.operand, ast.Constant):
            continue
        if isinstance(p_, ast.Name):
            continue  # an index variable in a slice expression (x[:, i]) -- a view if i is an integer; keep (may-alias)
        return False
    return True


def _store_ops(t):
    """a store to a literal list of columns x[['a', 'b']] = v is one store per column"""
    if isinstance(t, ast.Subscript) and isinstance(t.slice, ast.List) and t.slice.elts \
            and all(isinstance(e, ast.Constant) and isinstance(e.value, str) for e in t.slice.elts):
        return ["setitem:" + repr(e.value) for e in t.slice.elts]
    return [_store_op(t)]


def _store_op(t):
    if isinstance(t, ast.Subscript):
        sl = t.slice
        parts = sl.elts if isinstance(sl, ast.Tuple) else [sl]
        consts = [repr(p_.value) for p_ in parts if isinstance(p_, ast.Constant) and isinstance(p_.value, str)]
        lists = [repr([e.value for e in p_.elts]) for p_ in parts if isinstance(p_, ast.List) and all(isinstance(e, ast.Constant) for e in p_.elts)]
        return "setitem:" + (",".join(consts + lists) if consts or lists else "*")
    if isinstance(t, ast.Attribute):
        return "setattr:" + t.attr
    return "store"


def _terminates(body):
    return bool(body) and isinstance(body[-1], (ast.Return, ast.Raise, ast.Continue, ast.Break))


def _txt(n):
    try:
        return " ".join(ast.unparse(n).split())
    except Exception:  # noqa
        return "<?>"


# ---------------------------------------------------------------------------------------------------- property-level report
FILE_READERS = {"open", "pandas.read_csv", "pandas.read_table", "numpy.load", "numpy.loadtxt", "numpy.genfromtxt", "numpy.fromfile", "mrcfile.open",
                "mrcfile.mmap", "mrcfile.read", "h5py.File", "json.load", "pickle.load", "emfile.read", "pandas.read_pickle", "starfile.read",
                "yaml.safe_load", "pandas.read_hdf", "pandas.read_excel"}
FILE_STATE = {"os.stat", "os.path.getmtime", "os.path.getsize", "os.path.getctime", "hashlib.md5", "hashlib.sha1", "hashlib.sha256"}


class Report:
    def __init__(self):
        self.items = []      # dicts: kind, fn, root, src, op, node, module, message
        self.undecided = []  # same shape; the rule cannot decide (-> UNRECOGNISED)
        self.closure = set()
        self.sites = 0


def closure_of(eff, entries):
    seen, todo = set(), [(q, None) for q in entries]
    while todo:
        q, sc = todo.pop()
        if (q, sc) in seen:
            continue
        try:
            s = eff.summary(q, sc)
        except Exception:  # noqa
            continue
        seen.add((q, sc))
        todo.extend(s.callees)
    return seen


def _reads_files(eff, q, sc, memo, depth=0):
    k = (q, sc)
    if k in memo:
        return memo[k]
    memo[k] = False
    m, fn = eff.prog.func(q)
    for n in ast.walk(fn):
        if isinstance(n, ast.Call):
            d = eff.prog.resolve(m, n.func) or (n.func.id if isinstance(n.func, ast.Name) else None)
            if d in FILE_READERS:
                memo[k] = True
                return True
    for (q2, sc2) in eff.summary(q, sc).callees:
        if _reads_files(eff, q2, sc2, memo, depth + 1):
            memo[k] = True
            return True
    return False


def _optional_table(fn, name):
    """is `name` a parameter of fn whose default is the literal None?"""
    a = fn.args
    pos = a.posonlyargs + a.args
    pairs = list(zip(pos[len(pos) - len(a.defaults):], a.defaults)) + [(p, d) for p, d in zip(a.kwonlyargs, a.kw_defaults) if d is not None]
    return any(p.arg == name and isinstance(d, ast.Constant) and d.value is None for p, d in pairs)


def _memo_store(prog, ef):
    """is the write `table[key] = value` of a memo: in the function that contains it, `table` is a parameter with default None, `key` a plain
    variable, and the same function reads the table back by the same key (`table.get(key)`, `key in table`, `table[key]`)?"""
    try:
        m, f = prog.func(ef.src)
    except AnchorMissing:
        return False
    for n in ast.walk(f):
        if isinstance(n, ast.Subscript) and isinstance(n.ctx, ast.Store) and isinstance(n.value, ast.Name) and isinstance(n.slice, ast.Name) \
                and f"`{_txt(n)[:60]}`" in ef.how and _optional_table(f, n.value.id):
            t, k = n.value.id, n.slice.id
            for r in ast.walk(f):
                if isinstance(r, ast.Call) and isinstance(r.func, ast.Attribute) and r.func.attr == "get" and isinstance(r.func.value, ast.Name) \
                        and r.func.value.id == t and r.args and isinstance(r.args[0], ast.Name) and r.args[0].id == k:
                    return True
                if isinstance(r, ast.Compare) and len(r.ops) == 1 and isinstance(r.ops[0], (ast.In, ast.NotIn)) and isinstance(r.left, ast.Name) \
                        and r.left.id == k and isinstance(r.comparators[0], ast.Name) and r.comparators[0].id == t:
                    return True
                if isinstance(r, ast.Subscript) and isinstance(r.ctx, ast.Load) and isinstance(r.value, ast.Name) and r.value.id == t \
                        and isinstance(r.slice, ast.Name) and r.slice.id == k:
                    return True
    return False


def _immutable_part(lit, path, siblings=None, qual=""):
    """the part of a module-level literal reached by `path` ('[]' = an element): is everything that can be handed out immutable
    (numbers, strings, None, tuples of such)?  The literal itself (a list / dict) is not; its constant elements are"""
    if lit is None:
        return False

    def immutable(n, depth=0):
        if isinstance(n, ast.Constant):
            return True
        if isinstance(n, ast.UnaryOp) and isinstance(n.operand, ast.Constant):
            return True
        if isinstance(n, ast.Tuple):
            return all(immutable(e, depth + 1) for e in n.elts)
        if isinstance(n, ast.Name) and siblings is not None and depth < 4:
            # a name of the same class / module body bound to an immutable literal (a tuple of names shared by several rows of a table)
            scope = qual.rsplit(".", 1)[0]
            while scope:
                v = siblings.get(f"{scope}.{n.id}")
                if v is not None:
                    return immutable(v, depth + 1)
                scope = scope.rsplit(".", 1)[0] if "." in scope else ""
        return False

    nodes = [lit]
    steps = [p for p in path]
    if not steps or any(p != "[]" for p in steps):
        return False
    for _ in steps:
        nxt = []
        for n in nodes:
            if isinstance(n, ast.Dict):
                nxt.extend(n.values)
            elif isinstance(n, (ast.List, ast.Tuple, ast.Set)):
                nxt.extend(n.elts)
            elif isinstance(n, ast.Constant) and isinstance(n.value, str):
                nxt.append(n)  # a character of a string
            else:
                return False
        nodes = nxt
    return bool(nodes) and all(immutable(n) for n in nodes)


def analyse(prog, entries, report_param_for=None):
    """entries: qualified names of the property's functions.  -> Report"""
    eff = Effects(prog)
    rep = Report()
    clo = closure_of(eff, entries)
    rep.closure = {q for q, _ in clo}
    report_param_for = set(report_param_for if report_param_for is not None else entries)
    written = {}  # global -> [(fn, node)]
    for (q, sc) in clo:
        s = eff.summary(q, sc)
        m, fn = prog.func(q)
        for ef in s.mut:
            rep.sites += 1
            if ef.kind == "E-param" and q not in report_param_for:
                continue
            if ef.kind == "E-param" and not ef.origin.path and ef.op.startswith("setitem") and _optional_table(fn, ef.origin.name) \
                    and _memo_store(prog, ef):
                # `def f(..., memo=None)` filled with memo[key] = value: a table the caller hands in on purpose to be filled (a memo it owns and
                # drops itself).  Whether the key covers everything the remembered value depends on is not decided here
                rep.undecided.append({"kind": "E-param", "fn": q, "root": ef.origin.root(), "src": ef.src, "op": ef.op, "node": ef.node, "module": m,
                                      "message": f"the optional table `{ef.origin.name}` (default None) handed in by the caller is filled with "
                                                 "`[key] = value`: a caller-owned memo; whether its key covers everything the stored value depends on "
                                                 "cannot be decided from the source"})
                continue
            if ef.kind == "E-global" and not ef.origin.path and (ef.op.startswith("setitem") or ef.op in ("call:.pop", "call:.popitem", "call:.clear", "call:.popleft", "delitem")):
                continue  # filling / evicting from a module-level table (here or in a callee): the hidden-state rule (E-state) decides whether reading it back is sound
            rep.items.append({"kind": ef.kind, "fn": q, "root": ef.origin.root(), "src": ef.src, "op": ef.op, "node": ef.node, "module": m,
                              "message": {"E-param": f"an in-place write reaches the caller's argument `{ef.origin.name}`"
                                          + (f" (its part .{'.'.join(ef.origin.path)})" if ef.origin.path else "")
                                          + ": the caller's object is changed by the call, so the next call on it sees another input",
                                          "E-global": f"an in-place write reaches module/class-level state `{ef.origin.name}`: every later call sees the changed object",
                                          "E-default": f"an in-place write reaches the mutable default value of parameter `{ef.origin.name}`: it is shared by all "
                                                       "calls that rely on the default, so later results depend on earlier calls"}[ef.kind]
                              + f" [{ef.how}" + (f", through {' <- '.join(ef.via)}" if ef.via else "") + "]"})
        for g, n in s.gwrites:
            written.setdefault(g, []).append((q, n))
        for o in s.ret:
            rep.sites += 1
            if o.kind == "global" and _immutable_part(eff.mutable_globals().get(o.name), o.path, eff.all_globals(), o.name):
                continue  # an element of a literal table whose elements are constants / tuples of constants: nothing a caller could change
            if o.kind == "global":
                rep.items.append({"kind": "E-share", "fn": q, "root": o.root(), "src": q, "op": "return", "node": fn, "module": m,
                                  "message": f"the function returns an object that is (part of) module/class-level state `{o.name}`: every caller "
                                             "receives the same mutable object, so a change made through one result shows up in all others"})
        for d in fn.decorator_list:
            dn = d.func if isinstance(d, ast.Call) else d
            name = prog.resolve(m, dn) or (dn.id if isinstance(dn, ast.Name) else None)
            if name in CACHE_DECOS:
                rep.sites += 1
                item = {"kind": "E-cache", "fn": q, "root": "decorator:" + name, "src": q, "op": "decorator", "node": fn, "module": m}
                pathlike = [a_.arg for a_ in fn.args.posonlyargs + fn.args.args + fn.args.kwonlyargs
                            if any(w_ in a_.arg.lower() for w_ in ("file", "path", "name", "input", "map", "motl", "mask", "stack", "doc", "dir", "tomo", "list"))]
                if _reads_files(eff, q, sc, {}) and pathlike:
                    item["message"] = (f"{name} on a function whose result comes from a file: the result is remembered by argument (path) only, a "
                                       "file rewritten since the first call is never read again")
                    rep.items.append(item)
                elif _reads_files(eff, q, sc, {}):
                    # some function reachable from the memoised one can read a file, but none of the memoised function's own parameters looks like what
                    # is read (shape, radius, ...): whether a file enters the result at all is not decided here
                    item["message"] = f"{name}: a file read is reachable from the memoised function; whether it depends on the arguments is not decided"
                    rep.undecided.append(item)
                elif prog.enclosing_class(q) is not None and fn.args.args and fn.args.args[0].arg == "self" and any(
                        isinstance(x, ast.Attribute) and isinstance(x.value, ast.Name) and x.value.id == "self" and isinstance(x.ctx, ast.Load)
                        for x in ast.walk(fn)):
                    # a memoised *method*: the object is part of the key by identity only, the result is computed from what the object holds now
                    item["message"] = (f"{name} on a method that reads the state of its object (self.<attribute>): the result is remembered per object "
                                       "identity and arguments, so it goes stale as soon as the object's table is edited (selection, renumbering and "
                                       "removal all change self.df without changing the object)")
                    rep.items.append(item)
                elif _pure_memo(prog, eff, q, sc, m, fn):
                    pass  # every argument is in the key, nothing else is read, and what is handed out cannot be changed by the callers
                else:
                    item["message"] = f"{name}: results are shared between calls; whether they are immutable cannot be decided from the source"
                    rep.undecided.append(item)
    # hidden state: reads of written module/class-level containers
    globs = eff.mutable_globals()
    memo = {}
    for (q, sc) in clo:
        s = eff.summary(q, sc)
        m, fn = prog.func(q)
        own_reads = [(g, n) for g, n in s.greads if any(n is x for x in ast.walk(fn))]
        for g in sorted({g for g, _ in own_reads}):
            rep.sites += 1
            if g not in written:
                continue
            node = [n for gg, n in own_reads if gg == g][0]
            item = {"kind": "E-state", "fn": q, "root": "global:" + g, "src": q, "op": "read", "node": node, "module": m}
            if _reads_files(eff, q, sc, memo):
                uses_state = any(isinstance(n, ast.Call) and (prog.resolve(m, n.func) in FILE_STATE) for n in ast.walk(fn)) or \
                    any(isinstance(n, ast.Attribute) and n.attr in ("st_mtime", "st_mtime_ns", "st_size") for n in ast.walk(fn))
                if uses_state:
                    item["message"] = f"`{g}` caches file content and is validated against the file's state; the validation cannot be decided here"
                    rep.undecided.append(item)
                else:
                    item["message"] = (f"the result of a function that reads a file may come from the module/class-level container `{g}` (written by "
                                       f"{sorted({w for w, _ in written[g]})}): a file rewritten since it was first read is not noticed, and two spellings "
                                       "of one path are different keys -- the result depends on the call history")
                    rep.items.append(item)
                continue
            # memo of computed values: the key must mention every parameter
            missing = _memo_key_missing(fn, g.split(".")[-1])
            if missing is None:
                item["message"] = (f"the function reads module/class-level state `{g}` that other calls write ({sorted({w for w, _ in written[g]})}): "
                                   "its result depends on the call history")
                rep.items.append(item)
            elif missing:
                item["message"] = (f"memoised result in `{g}`: the key does not contain parameter(s) {sorted(missing)}; a later call that differs only in "
                                   "them receives the result computed for the earlier values")
                rep.items.append(item)
            # complete key: sharing of the cached object is reported by E-share / E-global
    return rep


_STR_METHODS = {"strip", "lstrip", "rstrip", "lower", "upper", "casefold", "title", "zfill", "removeprefix", "removesuffix", "isdigit", "isspace",
                "isalpha", "isnumeric", "startswith", "endswith", "partition", "rpartition", "encode", "decode", "center", "ljust", "rjust"}
_SCALAR_FUNCS = {"cos", "sin", "tan", "radians", "deg2rad", "degrees", "rad2deg", "sqrt", "abs", "round", "min", "max", "float", "int", "str", "bool",
                 "tuple", "frozenset", "len", "floor", "ceil", "hypot", "exp", "log", "divmod", "isinstance", "format"}


def _pure_memo(prog, eff, q, sc, m, fn):
    """lru_cache / cache on `fn` is harmless when (a) the function is not a method reading its object, reads no module/class-level container
    that is written anywhere and no file: its result is a function of the arguments, all of which are in the key; and (b) the object it hands
    out to every caller cannot be changed by them: a tuple / constant / enum member / scalar expression of the arguments, or an array the
    function itself switches to read-only before returning it"""
    s = eff.summary(q, sc)
    if s.greads or _reads_files(eff, q, sc, {}):
        return False
    if fn.args.args and fn.args.args[0].arg in ("self", "cls"):
        return False
    frozen = set()
    for n in ast.walk(fn):
        if isinstance(n, ast.Assign) and len(n.targets) == 1 and isinstance(n.targets[0], ast.Attribute) and n.targets[0].attr == "writeable" \
                and isinstance(n.targets[0].value, ast.Attribute) and n.targets[0].value.attr == "flags" and isinstance(n.targets[0].value.value, ast.Name) \
                and isinstance(n.value, ast.Constant) and n.value.value is False:
            frozen.add(n.targets[0].value.value.id)
        if isinstance(n, ast.Call) and isinstance(n.func, ast.Attribute) and n.func.attr == "setflags" and isinstance(n.func.value, ast.Name) \
                and any(k.arg == "write" and isinstance(k.value, ast.Constant) and k.value.value is False for k in n.keywords):
            frozen.add(n.func.value.id)
    params = {a.arg for a in fn.args.posonlyargs + fn.args.args + fn.args.kwonlyargs}

    def immutable(e, depth=0):
        if isinstance(e, ast.Constant):
            return True
        if isinstance(e, ast.Tuple):
            return all(immutable(x, depth + 1) for x in e.elts)
        if isinstance(e, ast.Attribute):  # an enum member / a module constant
            return isinstance(e.value, ast.Name) and e.value.id[:1].isupper()
        if isinstance(e, ast.Name):
            if e.id in frozen:
                return True
            if e.id in params:
                return True  # the caller's own (hashable) argument
            defs = [a.value for a in ast.walk(fn) if isinstance(a, ast.Assign) and any(isinstance(t, ast.Name) and t.id == e.id for t in a.targets)]
            return bool(defs) and depth < 4 and all(immutable(d, depth + 1) for d in defs)
        if isinstance(e, (ast.BinOp,)):
            return immutable(e.left, depth + 1) and immutable(e.right, depth + 1)
        if isinstance(e, ast.UnaryOp):
            return immutable(e.operand, depth + 1)
        if isinstance(e, ast.IfExp):
            return immutable(e.body, depth + 1) and immutable(e.orelse, depth + 1)
        if isinstance(e, ast.Compare):
            return True
        if isinstance(e, ast.Call):
            fname = e.func.attr if isinstance(e.func, ast.Attribute) else e.func.id if isinstance(e.func, ast.Name) else None
            if isinstance(e.func, ast.Attribute) and fname in _STR_METHODS:
                # a method that only text (or another immutable value) has, called on a value that is itself immutable here: the arguments
                # of a memoised function are hashable, so `value.strip()` is text handling, not a table or an array
                return immutable(e.func.value, depth + 1)
            if isinstance(e.func, ast.Name) and fname in ("float", "int", "bool", "str", "len", "round", "hash", "frozenset", "complex", "bytes") and not e.keywords:
                return True  # the result is an immutable scalar / text whatever the argument is
            return fname in _SCALAR_FUNCS and all(immutable(a, depth + 1) for a in e.args) and not e.keywords
        if isinstance(e, ast.BoolOp):
            return all(immutable(v_, depth + 1) for v_ in e.values)
        return False

    rets = [r.value for r in ast.walk(fn) if isinstance(r, ast.Return)]
    return bool(rets) and all(r is not None and immutable(r) for r in rets)


def _memo_key_missing(fn, gname):
    """for the pattern  G[key] = value  inside `fn`: parameters of fn that do not occur in `key` (through local definitions);
    None when the accesses to G are not of the memo form"""
    stores = [n for n in ast.walk(fn) if isinstance(n, ast.Assign) and any(
        isinstance(t, ast.Subscript) and isinstance(t.value, (ast.Name, ast.Attribute)) and _txt(t.value).split(".")[-1] == gname for t in n.targets)]
    if not stores:
        return None
    params = [a.arg for a in fn.args.posonlyargs + fn.args.args + fn.args.kwonlyargs if a.arg not in ("self", "cls")]
    defs = {}
    for n in ast.walk(fn):
        if isinstance(n, ast.Assign) and len(n.targets) == 1 and isinstance(n.targets[0], ast.Name):
            defs.setdefault(n.targets[0].id, []).append(n.value)
    missing = set(params)
    for st in stores:
        for t in st.targets:
            if not isinstance(t, ast.Subscript):
                continue
            seen, todo = set(), [x.id for x in ast.walk(t.slice) if isinstance(x, ast.Name)]
            while todo:
                nm = todo.pop()
                if nm in seen:
                    continue
                seen.add(nm)
                for v in defs.get(nm, []):
                    todo.extend(x.id for x in ast.walk(v) if isinstance(x, ast.Name))
            missing -= seen
    used = {x.id for x in ast.walk(fn) if isinstance(x, ast.Name)}
    return {p for p in missing if p in used}
