"""Transfer functions of the abstract interpreter for the Python / NumPy / pandas / SciPy subset the anchored
functions use.  Anything not listed becomes an uninterpreted call term (and an event); an operation on a tracked
table in a form that is not listed raises Unsupported, which the driver reports as ANALYSIS-ERROR."""
from __future__ import annotations

import ast

from . import terms as tm
from .terms import T, const, sym, call, mk, is_const, cval
from .values import (AV, Val, Arr, Frame, Rot, Seq, DictV, SliceV, Obj, Func, ClassRef, Ref, Method, Indexer, Unk,
                     Space, K, pyval, is_pyconst, to_term, NotConst, Unsupported)

from . import imgdom
from .imgdom import Spectrum, Filtered

ROT = "scipy.spatial.transform.Rotation"

BINOPS = {ast.Add: "add", ast.Sub: "sub", ast.Mult: "mul", ast.Div: "div", ast.FloorDiv: "floordiv", ast.Mod: "mod",
          ast.Pow: "pow", ast.BitAnd: "and", ast.BitOr: "or", ast.MatMult: "matmul", ast.BitXor: "xor"}
CMPOPS = {ast.Lt: "lt", ast.LtE: "le", ast.Gt: "gt", ast.GtE: "ge", ast.Eq: "eq", ast.NotEq: "ne"}


def _space(*avs):
    for a in avs:
        s = getattr(a, "space", None)
        if s is not None:
            return s
    return None


def as_arr(av):
    """view a value as an array with known components, or None"""
    if isinstance(av, Arr):
        return av
    if isinstance(av, Seq) and av.items and all(isinstance(x, (Val, Unk)) for x in av.items):
        return Arr([to_term(x) for x in av.items], ndim=1)
    if isinstance(av, Seq) and len(av.items) == 1 and isinstance(av.items[0], Seq):
        inner = as_arr(av.items[0])
        if inner is not None:
            return Arr(inner.cols, ndim=2, single_row=True)
    if isinstance(av, Seq) and av.items and all(isinstance(x, Seq) for x in av.items):
        # rows of a small literal matrix
        return None
    if isinstance(av, Frame) and av.order is not None:
        return Arr([fcol(av, c) for c in av.order], ndim=1 if av.row else 2, space=av.space)
    return None


# ====================================================================================================== operators
def unop(it, op, v, node):
    if isinstance(op, ast.USub):
        return map1(lambda t: mk("neg", t), v)
    if isinstance(op, ast.UAdd):
        return v
    if isinstance(op, (ast.Not, ast.Invert)):
        if isinstance(op, ast.Not):
            try:
                return K(not pyval(v))
            except NotConst:
                pass
            if isinstance(v, Seq):
                return K(len(v.items) == 0)
        return map1(lambda t: mk("not", t), v)
    raise Unsupported("unary operator", node)


def map1(f, v):
    if isinstance(v, Val):
        r = Val(f(v.term), space=v.space, series=v.series)
        if getattr(v, "axes", None) is not None:
            r.axes = v.axes
        return r
    if isinstance(v, Arr):
        a = Arr([f(c) for c in v.cols], v.ndim, v.space, v.single_row)
        return a
    if isinstance(v, Frame):
        fr = v.clone()
        fr.cols = {k: f(c) for k, c in v.cols.items()}
        return fr
    if isinstance(v, Seq):
        a = as_arr(v)
        if a is not None:
            return map1(f, a)
    return Unk(f(to_term(v)), space=_space(v))


def binop(it, op, a, b, node):
    opn = BINOPS.get(type(op))
    if opn is None:
        raise Unsupported("binary operator", node)
    r = arith(it, opn, a, b, node)
    if (getattr(a, "scalar_of_image", False) or getattr(b, "scalar_of_image", False)) and isinstance(r, (Val, Unk)) \
            and all(is_pyconst(x) or getattr(x, "scalar_of_image", False) for x in (a, b)):
        r.scalar_of_image = True  # arithmetic between numbers computed from images (and constants) is such a number
    return r


def arith(it, opn, a, b, node):
    if isinstance(a, imgdom.CompStack) or isinstance(b, imgdom.CompStack):
        return imgdom.stack_arith(opn, a, b)
    # python constants
    if is_pyconst(a) and is_pyconst(b):
        va, vb = pyval(a), pyval(b)
        try:
            if opn == "add":
                r = va + vb
            elif opn == "sub":
                r = va - vb
            elif opn == "mul":
                r = va * vb
            elif opn == "div":
                r = va / vb
            elif opn == "floordiv":
                r = va // vb
            elif opn == "mod":
                r = va % vb
            elif opn == "pow":
                r = va ** vb
            elif opn == "and":
                r = va & vb
            elif opn == "or":
                r = va | vb
            else:
                r = None
            if r is not None or opn in ("and", "or"):
                return from_py(r)
        except Exception:  # noqa
            pass
    if isinstance(a, Seq) and isinstance(b, Seq) and a.kind == "set" and b.kind == "set" and opn in ("sub", "and", "or") \
            and all(is_pyconst(x) for x in a.items + b.items):
        sa__, sb__ = [pyval(x) for x in a.items], [pyval(x) for x in b.items]
        if opn == "sub":
            res__ = [x for x in sa__ if x not in sb__]
        elif opn == "and":
            res__ = [x for x in sa__ if x in sb__]
        else:
            res__ = sa__ + [x for x in sb__ if x not in sa__]
        return Seq([K(x) for x in res__], "set")
    if isinstance(a, Spectrum) or isinstance(b, Spectrum):
        if opn == "mul":
            return imgdom.multiply(it, a, b, node)
        raise Unsupported(f"operation {opn} on a spectrum", node)
    if isinstance(a, Filtered) or isinstance(b, Filtered):
        r_ = imgdom.combine_filtered(it, opn, a, b, node)
        if r_ is not None:
            return r_
        return Unk(mk(opn, to_term(a), to_term(b)))
    if isinstance(a, Rot) or isinstance(b, Rot):
        if opn == "mul" and isinstance(a, Rot) and isinstance(b, Rot):
            return Rot(mk("matmul", a.term, b.term), space=_space(a, b))
        if opn == "mul":
            # Rotation * unknown rotation-like
            ta = a.term if isinstance(a, Rot) else to_term(a)
            tb = b.term if isinstance(b, Rot) else to_term(b)
            return Rot(mk("matmul", ta, tb), space=_space(a, b))
        raise Unsupported("arithmetic on a Rotation", node)
    if opn == "add" and isinstance(a, Seq) and isinstance(b, Seq) and a.kind in ("list", "tuple") \
            and not (as_arr(a) is not None and a.kind == "array"):
        return Seq(a.items + b.items, a.kind)
    if opn == "mul" and isinstance(a, Seq) and a.kind == "list" and is_pyconst(b) and isinstance(pyval(b), int) \
            and not (len(a.items) == 1 and isinstance(a.items[0], Frame)):
        return Seq(a.items * pyval(b), "list")
    if opn == "mul" and isinstance(a, Seq) and a.kind == "list" and len(a.items) == 1 and isinstance(a.items[0], Frame):
        u = Unk(call("repeat_list", to_term(a), to_term(b)))
        u.repeated = (a.items[0], b)
        return u
    if opn == "mul" and isinstance(a, Seq) and a.kind == "list" and len(a.items) == 1 and not is_pyconst(b) and isinstance(b, Val) \
            and (getattr(b, "shape_of", None) is not None and getattr(b, "axis", 0) == 0 or b.term.op == "call" and b.term.args[0] in ("nrows", "len")) \
            and (isinstance(a.items[0], (Val, Unk)) or is_pyconst(a.items[0])):
        # [x] * len(table): one x per row of the table -- a column in which every row holds x
        r_ = Val(to_term(a.items[0]), space=getattr(getattr(b, "shape_of", None), "space", None), series=True)
        r_.repeated_scalar = True
        return r_
    if opn == "mod" and is_pyconst(a) and isinstance(pyval(a), str):
        return Unk(call("strformat", to_term(a), to_term(b)))
    fa = a if isinstance(a, Frame) else None
    fb = b if isinstance(b, Frame) else None
    if fa is not None or fb is not None:
        return frame_arith(it, opn, a, b, node)
    aa, ab = as_arr(a) if not isinstance(a, Val) else None, as_arr(b) if not isinstance(b, Val) else None
    if aa is not None or ab is not None:
        if aa is not None and ab is not None:
            if len(aa.cols) == len(ab.cols):
                cols = [mk(opn, x, y) for x, y in zip(aa.cols, ab.cols)]
            elif len(ab.cols) == 1:
                cols = [mk(opn, x, ab.cols[0]) for x in aa.cols]
            elif len(aa.cols) == 1:
                cols = [mk(opn, aa.cols[0], y) for y in ab.cols]
            else:
                raise Unsupported(f"broadcast of {len(aa.cols)} against {len(ab.cols)} components", node)
            return Arr(cols, max(aa.ndim, ab.ndim), _space(aa, ab), aa.single_row or ab.single_row)
        if aa is not None:
            tb = to_term(b)
            return Arr([mk(opn, x, tb) for x in aa.cols], aa.ndim, _space(aa, b), aa.single_row)
        ta = to_term(a)
        return Arr([mk(opn, ta, y) for y in ab.cols], ab.ndim, _space(ab, a), ab.single_row)
    if isinstance(a, (Val, Unk)) and isinstance(b, (Val, Unk)):
        sa_, sb_ = getattr(a, "space", None), getattr(b, "space", None)
        if sa_ is not None and sb_ is not None and not sa_.same(sb_) and opn not in ("and", "or"):
            it.record("space-mismatch", "arith", [a, b], {}, node, {"left": sa_, "right": sb_})
        check_labels(it, "arith", a, b, node)
        t = mk(opn, a.term, b.term)
        axes = imgdom.bcast_axes(getattr(a, "axes", None), getattr(b, "axes", None))
        if isinstance(a, Val) and isinstance(b, Val) or axes is not None:
            r = Val(t, space=_space(a, b), series=getattr(a, "series", False) or getattr(b, "series", False))
            lab_ = getattr(a, "lab", None) or getattr(b, "lab", None)
            if lab_ is not None:
                r.lab = lab_
            if axes is not None:
                r.axes = axes
            r.fresh = True
            return r
        u = Unk(t, space=_space(a, b))
        u.fresh = True
        rk_ = [getattr(x_, "rank", None) for x_ in (a, b) if getattr(x_, "rank", None) is not None]
        if rk_:
            u.rank = max(rk_)
        return u
    u = Unk(mk(opn, to_term(a), to_term(b)), space=_space(a, b))
    u.fresh = True
    return u


def frame_arith(it, opn, a, b, node):
    if isinstance(a, Frame) and isinstance(b, Frame):
        check_labels(it, "arith", a, b, node)
        if a.order is not None and b.order is not None and set(a.order) == set(b.order):
            f = a.clone()
            f.cols = {k: mk(opn, a.cols[k], b.cols[k]) for k in a.order}
            return f
        raise Unsupported("arithmetic between tables with different columns", node)
    fr, other, left = (a, b, True) if isinstance(a, Frame) else (b, a, False)
    oa = as_arr(other) if not isinstance(other, Val) else None
    f = fr.clone()
    if oa is not None:
        if fr.order is None:
            raise Unsupported("positional arithmetic on a table of unknown column order", node)
        if len(oa.cols) != len(fr.order):
            raise Unsupported("positional arithmetic: width mismatch", node)
        for k, c in zip(fr.order, oa.cols):
            f.cols[k] = mk(opn, fr.cols[k], c) if left else mk(opn, c, fr.cols[k])
        return f
    t = to_term(other)
    f.cols = {k: (mk(opn, c, t) if left else mk(opn, t, c)) for k, c in fr.cols.items()}
    return f


def from_py(v):
    if isinstance(v, (list, tuple)):
        return Seq([from_py(x) for x in v], "tuple" if isinstance(v, tuple) else "list")
    if isinstance(v, dict):
        return DictV({k: from_py(x) for k, x in v.items()})
    return K(v)


def compare(it, op, a, b, node):
    if isinstance(op, (ast.Is, ast.IsNot)):
        neg = isinstance(op, ast.IsNot)
        if is_pyconst(b) and pyval(b) is None:
            if is_pyconst(a):
                r = pyval(a) is None
                return K(r != neg)
            if isinstance(a, (Frame, Arr, Seq, DictV, Obj, Func, ClassRef, Rot)):
                return K(neg)
            if isinstance(a, Val) and getattr(a, "given", False):
                return K(neg)  # a symbolic argument stands for a value the caller passed
            t = mk("eq", to_term(a), const(None))
            return Val(mk("not", t) if neg else t)
        if is_pyconst(a) and is_pyconst(b):
            return K((pyval(a) is pyval(b)) != neg)
        t = mk("eq", to_term(a), to_term(b))
        return Val(mk("not", t) if neg else t)
    if isinstance(op, (ast.In, ast.NotIn)):
        neg = isinstance(op, ast.NotIn)
        if is_pyconst(a):
            va = pyval(a)
            cont = None
            if is_pyconst(b):
                cont = pyval(b)
            elif isinstance(b, DictV):
                cont = list(b.items)
            elif isinstance(b, Seq) and all(is_pyconst(x) for x in b.items):
                cont = [pyval(x) for x in b.items]
            if cont is not None:
                try:
                    return K((va in cont) != neg)
                except TypeError:
                    pass
        if isinstance(b, Val) and getattr(b, "series", False) and not getattr(a, "is_index", False):
            # `v in <column of a table>` asks whether v is one of the column's ROW LABELS, not one of its values
            it.record("typing", "in-series", [a, b], {}, node)
            t = call("in_labels", to_term(a), call("index", const(b.space.id if getattr(b, "space", None) is not None else 0)))
            return Val(mk("not", t) if neg else t)
        t = call("in", to_term(a), to_term(b))
        return Val(mk("not", t) if neg else t, space=_space(a))
    opn = CMPOPS.get(type(op))
    if opn is None:
        raise Unsupported("comparison operator", node)
    if is_pyconst(a) and is_pyconst(b):
        va, vb = pyval(a), pyval(b)
        try:
            r = {"lt": lambda: va < vb, "le": lambda: va <= vb, "gt": lambda: va > vb, "ge": lambda: va >= vb,
                 "eq": lambda: va == vb, "ne": lambda: va != vb}[opn]()
            return K(bool(r))
        except Exception:  # noqa
            pass
    if isinstance(a, Seq) and isinstance(b, Seq) and opn in ("eq", "ne") and a.kind in ("tuple", "list") \
            and not (all(is_pyconst(x) for x in a.items) and all(is_pyconst(x) for x in b.items)):
        # e.g. dims.shape == (1, 3)
        t = None
        for x, y in zip(a.items, b.items):
            c = mk("eq", to_term(x), to_term(y))
            t = c if t is None else mk("and", t, c)
        if len(a.items) != len(b.items):
            return K(opn == "ne")
        if any(is_pyconst(x) and is_pyconst(y) and pyval(x) != pyval(y) for x, y in zip(a.items, b.items)):
            return K(opn == "ne")  # one component differs for certain: (n, 4) == (1, 3) is false whatever n is
        if all(to_term(x) == to_term(y) for x, y in zip(a.items, b.items)):
            return K(opn == "eq")
        return Val(t if opn == "eq" else mk("not", t))
    r = arith(it, opn, a, b, node)
    return r


def logical(it, opn, a, b, node):
    return arith(it, opn, a, b, node)


# ====================================================================================================== attributes
def getattr_(it, base, attr, node, fr):
    if isinstance(base, Filtered) and attr == "shape" and base.axes is not None:
        return Seq([Val(A.n) for A in base.axes], "tuple")
    if isinstance(base, Filtered) and attr in ("dtype", "ndim"):
        return K(len(base.axes)) if attr == "ndim" and base.axes is not None else Unk(call("." + attr, base.term))
    if isinstance(base, imgdom.CompStack):
        if attr == "shape":
            n_ = Val(call("gridsize", *[A.n for A in (base.axes or [])]))
            n_.stack_of = base
            return Seq([K(len(base.comps)), n_] if base.flat else [K(len(base.comps))] + [Val(A.n) for A in base.axes], "tuple")
        if attr == "T":
            raise Unsupported("transpose of a stack of component grids", node)
        return Method(base, attr)
    if isinstance(base, Obj):
        if attr in base.attrs:
            return base.attrs[attr]
        q = it.prog.find_method(base.cls, attr)
        if q:
            m, fn = it.prog.lookup(q)
            if isinstance(fn, ast.FunctionDef):
                return Func(q, m, fn, bound=base)
        # class attribute
        for c in it.prog.mro(base.cls):
            try:
                m, v = it.prog.class_attr_node(c, attr)
                return it.eval(v, _mkframe(it, c, m))
            except Exception:  # noqa
                continue
        if attr == "__class__":
            return ClassRef(base.cls)
        u = Unk(sym(f"self.{attr}"), why="unknown attribute")
        base.attrs[attr] = u
        return u
    if isinstance(base, ClassRef):
        q = it.prog.find_method(base.qual, attr)
        if q:
            m, fn = it.prog.lookup(q)
            if isinstance(fn, ast.FunctionDef):
                return Func(q, m, fn, bound=base if _is_classmethod(it, m, fn) else None)
        for c in it.prog.mro(base.qual):
            try:
                m, v = it.prog.class_attr_node(c, attr)
                return it.eval(v, _mkframe(it, c, m))
            except Exception:  # noqa
                continue
        if attr == "__name__":
            return K(base.qual.split(".")[-1])
        raise Unsupported(f"unknown class attribute {base.qual}.{attr}", node)
    if isinstance(base, Ref):
        dotted = base.name + "." + attr
        q = it.prog.repo_qual(dotted)
        if q:
            m, d = it.prog.lookup(q)
            return ClassRef(q) if isinstance(d, ast.ClassDef) else Func(q, m, d)
        if dotted in ("numpy.pi", "math.pi"):
            import math
            return K(math.pi)
        if dotted in ("numpy.nan",):
            return K(float("nan"))
        if dotted == "numpy.newaxis":
            return K(None)
        if dotted in ("numpy.inf", "math.inf"):
            return K(float("inf"))
        return Ref(dotted)
    if isinstance(base, Frame):
        if attr in ("loc", "iloc", "at", "iat"):
            return Indexer(base, attr)
        if attr == "values":
            return frame_values(it, base, node)
        if attr == "columns":
            if base.order is not None:
                s = Seq([K(c) for c in base.order], "list")
                s.of_frame = base
                return s
            u = Unk(call("columns", const(base.name)))
            u.of_frame = base
            return u
        if attr == "shape":
            return Seq([Val((base.space.nrows() if base.space else call("nrows", const(0)))),
                        K(len(base.order)) if base.order is not None and not base.open else Val(call("ncols", const(base.name)))],
                       "tuple")
        if attr == "empty":
            return Val((mk("eq", base.space.nrows(), const(0)) if base.space else call("empty", const(0))))
        if attr == "index":
            u = Unk(call("index", const(base.space.id if base.space else 0)), space=base.space)
            u.of_frame = base
            u.is_index = True
            return u
        if attr == "T":
            return Unk(call("transpose", to_term(base)))
        if attr == "dtypes":
            return Unk(call("dtypes", to_term(base)))
        if attr in base.cols and not _is_df_method(attr):
            return series_of(base, attr)
        return Method(base, attr)
    if isinstance(base, Arr):
        if attr == "shape":
            alloc_n = getattr(base, "nrows", None)
            if not base.single_row and base.space is None and alloc_n is not None and isinstance(alloc_n, (Val, Unk)):
                n = alloc_n  # np.zeros((n, k)).shape[0] is the n it was allocated with
            else:
                n = K(1) if base.single_row else Val((base.space.nrows() if base.space else call("nrows", const(0))))
                if not base.single_row:
                    n.shape_of = base
                    n.axis = 0
            return Seq([n, K(len(base.cols))] if base.ndim == 2 else [K(len(base.cols))], "tuple")
        if attr == "T":
            if base.ndim == 2 and not base.single_row:
                k_ = float(len(base.cols))
                for g_ in it.guards:
                    hit = [n_ for n_ in tm.walk(g_) if n_.op == "eq" and any(tm.has_call(x_, "nrows") for x_ in n_.args)
                           and any(tm.cval(x_) == k_ for x_ in n_.args)]
                    if hit:
                        # a batch of rows (n, k) is re-read as (k, n) when its row count happens to equal k: for n == k the two
                        # layouts cannot be told apart, so a regular batch of exactly k rows is transposed
                        it.record("typing", "ambiguous-transpose", [base], {}, node, {"width": int(k_)})
            return Unk(call("transposed", to_term(base)), space=base.space)
        if attr == "ndim":
            return K(base.ndim)
        if attr == "size":
            return Val(call("size", to_term(base)))
        return Method(base, attr)
    if isinstance(base, Val):
        if attr in ("values", "real"):
            if getattr(base, "lab", None) is not None:
                import copy as _copy
                r_ = _copy.copy(base)  # the bare array of a column: no row labels any more
                r_.lab = None
                return r_
            return base
        if attr in ("loc", "iloc", "at", "iat"):
            return Indexer(base, attr)
        if attr == "shape":
            n_ = Val((base.space.nrows() if base.space else call("nrows", const(0))))
            n_.shape_of = base
            n_.axis = 0
            k_ = Val(call("ncols", base.term))
            return Seq([n_, k_], "tuple")
        if attr in ("str", "dt"):
            return Method(base, attr)
        if attr == "index":
            return Unk(call("index", const(base.space.id if base.space else 0)), space=base.space)
        if attr == "dtype":
            return Unk(call("dtype", base.term))
        if attr == "size":
            return Val(call("size", base.term))
        if attr == "T":
            if base.space is not None and not getattr(base, "transposed_of", None):
                # a per-row (N, k) value seen column-wise: element-wise the same value; iterating it walks over its k columns
                t_ = Val(base.term, space=base.space, pos_of=base.pos_of, series=base.series)
                for k_, v_ in base.__dict__.items():
                    if k_ not in t_.__dict__:
                        t_.__dict__[k_] = v_
                t_.transposed_of = base
                return t_
            return base
        return Method(base, attr)
    if isinstance(base, Rot):
        return Method(base, attr)
    if isinstance(base, (Seq, DictV)):
        return Method(base, attr)
    if isinstance(base, Method):
        # e.g. series.str.replace -> Method(Method(series,'str'),'replace')
        return Method(base, attr)
    if isinstance(base, Unk):
        if attr == "shape" and getattr(base, "is_matrix", False) and getattr(base, "rot", None) is not None:
            # Rotation.as_matrix(): (3, 3) for a single rotation, (N, 3, 3) for a batch
            r_ = base.rot
            if r_.space is None and not getattr(r_, "batched", False) and not getattr(r_, "from_2d", False):
                return Seq([K(3), K(3)], "tuple")
            n_ = Val(r_.space.nrows()) if r_.space is not None else Val(call("nrows", r_.term))
            return Seq([n_, K(3), K(3)], "tuple")
        if attr == "shape" and getattr(base, "rank", None) is not None:
            nm = tm.show(base.term)
            a_ = Arr([sym(f"{nm}.n{k}") for k in range(base.rank)], 1)
            a_.shape_of = base
            return a_
        if attr in ("shape",):
            u = Unk(call(".shape", base.term))
            u.shape_of = base
            return u
        if attr == "T":
            u = Unk(T("transpose", base.term), space=base.space)
            for k_ in ("is_mat",):
                if hasattr(base, k_):
                    setattr(u, k_, getattr(base, k_))
            return u
        if attr in ("loc", "iloc"):
            return Indexer(base, attr)
        if attr in ("values", "real", "T") and attr != "T":
            return base
        u = Unk(call("." + attr, base.term), space=base.space if attr in ("data", "df") else None)
        u.attr_of = (base, attr)  # called later -> method call on base; used as a value -> attribute
        for k_ in ("rank",):
            if attr == "data" and hasattr(base, k_):
                setattr(u, k_, getattr(base, k_))
        return u
    if isinstance(base, Filtered):
        if attr == "real":
            return Filtered(base.src, base.gain, base.axes, base.transformed, real=True)
        return Method(base, attr)
    if isinstance(base, Spectrum):
        return Method(base, attr)
    if isinstance(base, Func):
        return Unk(call("funcattr", const(base.qual), const(attr)))
    if isinstance(base, Indexer):
        return Method(base, attr)
    raise Unsupported(f"attribute .{attr} of {type(base).__name__}", node)


_DF_METHODS = {"copy", "values", "loc", "iloc", "shape", "apply", "index", "columns", "sort_values", "fillna", "mean",
               "max", "min", "sum", "round", "map", "drop", "merge", "size", "count", "filter", "items", "keys", "pop"}


def _is_df_method(attr):
    return attr in _DF_METHODS


def _is_classmethod(it, m, fn):
    for d in fn.decorator_list:
        if isinstance(d, ast.Name) and d.id == "classmethod":
            return True
    return False


def _mkframe(it, clsq, m):
    from .interp import Frame_
    return Frame_(clsq, m, {}, clsq)


def fcol(frame, name):
    """column term of a table; rows restricted by filters are marked sel(col, mask...) (identity under evaluation)"""
    t = frame.col(name)
    if frame.filters:
        return T("sel", t, *frame.filters)
    return t


def label_key(v):
    """row labels of a pandas object (E17): None = unlabelled (array / scalar / single row); ("empty", None) = a table without
    rows, which adopts the labels of the first column stored into it; otherwise (kind, family) with kind "pos" = RangeIndex
    0..n-1, "tok" = labels not known to be 0..n-1, and family = the label family (shared by copies, selections and sorts of one
    table; renewed by reset_index and by constructing a new table)"""
    if isinstance(v, Frame):
        if v.row:
            return None
        if (getattr(v, "is_empty", False) or getattr(v, "labels_adopt", False)) and not getattr(v, "adopted", False):
            return ("empty", None)
        return ("pos" if v.labels_positional else "tok", v.lab_root)
    return getattr(v, "lab", None)


def same_labels(a, b):
    """label alignment pairs the rows the code means iff both objects carry labels of one family (then equal labels are the same
    original row) or both are numbered 0..n-1"""
    if a is None or b is None or a[0] == "empty" or b[0] == "empty":
        return True
    if a[1] is b[1]:
        return True
    return a[0] == "pos" and b[0] == "pos"


def check_labels(it, what, a, b, node):
    """pandas aligns labelled operands on their row labels, not on row position"""
    ka, kb = label_key(a), label_key(b)
    if ka is None or kb is None or ka[0] == "empty" or kb[0] == "empty":
        return
    it.record("label-align", what, [a, b], {}, node, {"left": ka, "right": kb, "same": same_labels(ka, kb)})


def series_of(frame, name):
    v = Val(fcol(frame, name), space=frame.space, series=not frame.row)
    v.of_frame = frame
    v.colname = name
    if not frame.row:
        v.lab = label_key(frame)
    return v


def frame_values(it, f, node):
    if f.order is None:
        u = Unk(call("values_unordered", to_term(f)), space=f.space, why="column order unknown")
        u.of_frame = f
        return u
    a = Arr([fcol(f, c) for c in f.order], ndim=1 if f.row else 2, space=f.space)
    a.from_frame = f
    a.colnames = list(f.order)
    a.notes = list(f.notes)
    return a


# ====================================================================================================== subscripts
def _colsel(idx):
    """column selector: str -> name ; list of str -> names ; None otherwise"""
    try:
        v = pyval(idx)
    except NotConst:
        return None
    if isinstance(v, str):
        return v
    if isinstance(v, (list, tuple)) and v and all(isinstance(x, str) for x in v):
        return list(v)
    return None


def is_mask(av):
    return isinstance(av, (Val, Unk)) and not is_pyconst(av)


def filter_frame(it, f, mask, node, how="filter"):
    nf = f.clone()
    mt = to_term(mask)
    ms_ = getattr(mask, "space", None)
    if ms_ is not None and f.space is not None and not ms_.same(f.space) and getattr(mask, "lab", None) is None:
        # an unlabelled (array) mask is applied by position: it must have been computed on the rows of this very table
        it.record("space-mismatch", "filter", [f, mask], {}, node, {"frame_space": f.space, "value_space": ms_, "names": None})
    nf.space = Space(f"{f.name}[{tm.show(mt)[:60]}]", parent=f.space, how=how, key=mt.key())
    nf.space.mask = mt
    nf.filters = f.filters + [mt]
    nf.labels_positional = False
    it.record("filter", "rows", [f, mask], {}, node, {"result": nf})
    return nf


def getitem(it, base, idx, node, fr):
    if isinstance(base, Unk) and getattr(base, "is_matrix", False) and getattr(base, "rot", None) is not None \
            and isinstance(idx, Seq) and len(idx.items) == 3 and isinstance(idx.items[0], SliceV) and idx.items[0].is_full():
        # rotation matrices of a batch: M[:, :, j] is the image of the j-th unit vector (column j), M[:, i, :] is row i = column i of
        # the inverse rotation
        a_, b_ = idx.items[1], idx.items[2]
        e = lambda k: T("vec", *[const(1.0 if i_ == k else 0.0) for i_ in range(3)])
        R = base.rot.term
        v_ = None
        if isinstance(a_, SliceV) and a_.is_full() and is_pyconst(b_) and isinstance(pyval(b_), int):
            v_ = T("rotapply", R, e(pyval(b_) % 3))
        elif isinstance(b_, SliceV) and b_.is_full() and is_pyconst(a_) and isinstance(pyval(a_), int):
            v_ = T("rotapply", T("transpose", R), e(pyval(a_) % 3))
        if v_ is not None:
            return Arr([T("item", v_, 0), T("item", v_, 1), T("item", v_, 2)], 2, base.space)
    if isinstance(base, Unk) and getattr(base, "is_matrix", False) and getattr(base, "rot", None) is not None \
            and isinstance(idx, Seq) and len(idx.items) == 2 and base.rot.space is None and not getattr(base.rot, "batched", False) \
            and not getattr(base.rot, "from_2d", False):
        # the matrix of a single rotation: M[:, j] is column j (image of e_j), M[i, :] is row i
        a_, b_ = idx.items
        e = lambda k: T("vec", *[const(1.0 if i_ == k else 0.0) for i_ in range(3)])
        R = base.rot.term
        v_ = None
        if isinstance(a_, SliceV) and a_.is_full() and is_pyconst(b_) and isinstance(pyval(b_), int):
            v_ = T("rotapply", R, e(pyval(b_) % 3))
        elif isinstance(b_, SliceV) and b_.is_full() and is_pyconst(a_) and isinstance(pyval(a_), int):
            v_ = T("rotapply", T("transpose", R), e(pyval(a_) % 3))
        if v_ is not None:
            return Arr([T("item", v_, 0), T("item", v_, 1), T("item", v_, 2)], 1, None)
    if isinstance(base, Unk) and getattr(base, "is_matrix", False) and getattr(base, "rot", None) is not None \
            and isinstance(idx, Seq) and len(idx.items) == 2 and (base.rot.space is not None or getattr(base.rot, "batched", False)) \
            and isinstance(idx.items[0], SliceV) and idx.items[0].is_full() and is_pyconst(idx.items[1]) and isinstance(pyval(idx.items[1]), int):
        # the matrices of a batch (N, 3, 3): M[:, i] is row i of every matrix = column i of the inverse rotation
        i_ = pyval(idx.items[1]) % 3
        v_ = T("rotapply", T("transpose", base.rot.term), T("vec", *[const(1.0 if k_ == i_ else 0.0) for k_ in range(3)]))
        return Arr([T("item", v_, 0), T("item", v_, 1), T("item", v_, 2)], 2, base.space)
    if isinstance(base, imgdom.CompStack):
        r_ = imgdom.stack_getitem(base, idx)
        if r_ is None:
            raise Unsupported("indexing of a stack of component grids", node)
        return r_
    if isinstance(base, Indexer):
        return indexer_get(it, base, idx, node, fr)
    if isinstance(base, Frame):
        sel = _colsel(idx)
        if isinstance(sel, str):
            if base.row or True:
                try:
                    return series_of(base, sel)
                except KeyError:
                    raise Unsupported(f"column {sel!r} not in table {base.name}", node)
        if isinstance(sel, list):
            return frame_select(it, base, sel, node)
        if isinstance(idx, SliceV) and base.row:
            lo, hi = pyval(idx.lower) if idx.lower else None, pyval(idx.upper) if idx.upper else None
            if isinstance(lo, str) and isinstance(hi, str) and base.order is not None:
                i0, i1 = base.order.index(lo), base.order.index(hi)
                return frame_select(it, base, base.order[i0:i1 + 1], node)
        if isinstance(idx, Seq) and idx.kind == "list" and idx.items and all(isinstance(x, Val) and x.term.op == "sym" for x in idx.items):
            nf_ = base.clone()
            nf_.cols = {f"<{x.term.args[0]}>": call("col", const(base.name), x.term) for x in idx.items}
            nf_.order = list(nf_.cols)
            nf_.open = False
            nf_.dynamic_columns = True
            return nf_
        if isinstance(idx, Val) and idx.term.op == "sym" and not idx.series:
            # a column named by a parameter (feature_id, metric_id, ...)
            t_ = call("col", const(base.name), idx.term)
            if base.filters:
                t_ = T("sel", t_, *base.filters)
            v_ = Val(t_, space=base.space, series=True)
            v_.of_frame = base
            v_.colname_term = idx.term
            return v_
        if is_mask(idx):
            return filter_frame(it, base, idx, node)
        if isinstance(idx, Seq) and getattr(idx, "of_frame", None) is not None:
            return base
        raise Unsupported("table subscript form", node)
    if isinstance(base, Arr):
        r_ = arr_getitem(it, base, idx, node)
        # A[:, k] is a *view* of column k: an in-place update of the view (v += ...) is an update of A
        if base.ndim == 2 and isinstance(idx, Seq) and len(idx.items) == 2 and isinstance(idx.items[0], SliceV) and idx.items[0].is_full() \
                and is_pyconst(idx.items[1]) and isinstance(pyval(idx.items[1]), int) and isinstance(r_, Val):
            r_.view_of = (base, pyval(idx.items[1]) % len(base.cols))
        return r_
    if isinstance(base, Seq):
        a = None
        if isinstance(idx, SliceV):
            lo = pyval(idx.lower) if idx.lower is not None else None
            hi = pyval(idx.upper) if idx.upper is not None else None
            stp = pyval(idx.step) if idx.step is not None else None
            r_ = Seq(base.items[slice(lo, hi, stp)], base.kind)
            if getattr(base, "of_frame", None) is not None:
                r_.of_frame = base.of_frame
            return r_
        if is_pyconst(idx) and isinstance(pyval(idx), int):
            try:
                return base.items[pyval(idx)]
            except IndexError:
                raise Unsupported("sequence index out of range", node)
        a = as_arr(base)
        if a is not None:
            return arr_getitem(it, a, idx, node)
        return Unk(call("getitem", to_term(base), to_term(idx)))
    if isinstance(base, DictV):
        try:
            k = pyval(idx)
        except NotConst:
            return Unk(call("getitem", to_term(base), to_term(idx)))
        if k in base.items:
            return base.items[k]
        raise Unsupported(f"missing dict key {k!r}", node)
    if isinstance(base, Val):
        if is_pyconst(base):
            v = pyval(base)
            try:
                if isinstance(idx, SliceV):
                    lo = pyval(idx.lower) if idx.lower is not None else None
                    hi = pyval(idx.upper) if idx.upper is not None else None
                    stp = pyval(idx.step) if idx.step is not None else None
                    return from_py(v[slice(lo, hi, stp)])
                return from_py(v[pyval(idx)])
            except NotConst:
                pass
        return val_getitem(it, base, idx, node)
    if isinstance(base, Unk):
        if getattr(base, "shape_of", None) is not None and is_pyconst(idx):
            u = Val(call("shape", base.shape_of.term, const(pyval(idx))))
            u.shape_of = base.shape_of
            u.axis = pyval(idx)
            return u
        r = Unk(call("getitem", base.term, to_term(idx)), space=base.space)
        if getattr(base, "is_index", False):
            r.is_label = True
            r.label_of = getattr(base, "of_frame", None)
            if getattr(idx, "is_label", False):
                it.record("typing", "label-used-as-position", [base, idx], {}, node)
        if getattr(base, "rank", None) is not None:
            items_ = idx.items if isinstance(idx, Seq) and idx.kind == "tuple" else [idx]
            r.rank = base.rank - sum(1 for x_ in items_ if not isinstance(x_, SliceV))
        it.record("index", "getitem", [base, idx], {}, node, {"result": r})
        if is_mask(idx) or isinstance(idx, SliceV):
            pass
        else:
            r.space = None
        if isinstance(idx, Seq) and idx.kind == "tuple" and idx.items and all(isinstance(x_, (Val, Unk)) for x_ in idx.items):
            sps_ = [getattr(x_, "space", None) for x_ in idx.items]
            if sps_[0] is not None and all(s_ is not None and s_.same(sps_[0]) for s_ in sps_):
                r.space = sps_[0]  # V[c0, c1, c2] with coordinate columns: one value per coordinate row
        return r
    if isinstance(base, Ref):
        if base.name in ("numpy.mgrid", "numpy.ogrid"):
            return imgdom.mgrid(it, base.name, idx, node)
        return Ref(base.name + "[]")
    if isinstance(base, Filtered):
        parts_ = idx.items if isinstance(idx, Seq) else [idx]
        if all(isinstance(p_, SliceV) for p_ in parts_):
            c_ = Filtered(base.src, base.gain, base.axes, base.transformed, base.real)
            c_.__dict__.update({k_: v_ for k_, v_ in base.__dict__.items() if k_ in ("padded", "cast", "cast_node", "shortcut")})
            c_.cropped = True  # a window of the filtered array (e.g. cropping a padded canvas back)
            return c_
    if isinstance(base, (Spectrum, Filtered)):
        raise Unsupported("indexing a spectrum / filtered array", node)
    if isinstance(base, Rot):
        r = Rot(base.term, space=index_space(it, base, idx, node))
        r.indexed_by = idx
        it.record("index", "rows", [base, idx], {}, node)
        return r
    raise Unsupported(f"subscript of {type(base).__name__}", node)


def frame_select(it, f, names, node):
    nf = f.clone()
    try:
        nf.cols = {n: f.col(n) for n in names}
    except KeyError as e:
        raise Unsupported(f"column {e} not in table {f.name}", node)
    nf.order = list(names)
    nf.open = False
    nf.parent_frame = f
    return nf


def val_getitem(it, v, idx, node):
    """indexing a 1-D element-wise value"""
    axes_ = getattr(v, "axes", None)
    if axes_ is not None and isinstance(idx, Seq) and idx.kind == "tuple" and len(idx.items) == len(axes_) and all(isinstance(x, SliceV) for x in idx.items) \
            and not all(x.is_full() for x in idx.items) and all(a_ is not None for a_ in axes_):
        # an index function read backwards along some axes (a[::-1, ::-1, ::-1]): index i of the result is index n-1-i of the array
        def rev(x):
            return x.lower is None and x.upper is None and x.step is not None and is_pyconst(x.step) and pyval(x.step) == -1
        if all(x.is_full() or rev(x) for x in idx.items) and all(tm.cval(a_.off) in (0, None) or tm.is_const(a_.off) and tm.cval(a_.off) == 0 for a_ in axes_):
            sub = {a_.sym: mk("sub", mk("sub", a_.n, const(1)), a_.sym) for a_, x in zip(axes_, idx.items) if rev(x)}
            r = Val(tm.subst(v.term, sub), space=v.space)
            r.axes = list(axes_)
            it.record("index", "reversed-axes", [v, idx], {}, node)
            return r
        raise Unsupported("slicing of an index function with bounds / steps other than a full reversal", node)
    if isinstance(idx, Seq) and idx.kind == "tuple" and all(
            (isinstance(x, SliceV) and x.is_full()) or (is_pyconst(x) and pyval(x) is None) for x in idx.items):
        r = imgdom.newaxis_index(v, idx)
        return r if r is not None else v  # v[:, np.newaxis] and friends: same element-wise value
    if isinstance(idx, SliceV):
        if idx.is_full():
            return v
        if idx.step is not None and is_pyconst(idx.step) and pyval(idx.step) == -1 and idx.lower is None and idx.upper is None:
            r = Val(v.term, space=Space("reversed", parent=v.space, how="reverse"), pos_of=v.pos_of)
            r.reversed_of = v
            for a in ("sorted_by",):
                if hasattr(v, a):
                    setattr(r, a, getattr(v, a))
            r.descending = not getattr(v, "descending", False)
            return r
        r = Val(v.term, space=Space("slice", parent=v.space, how="slice"), pos_of=v.pos_of)
        r.slice_of = (v, idx)
        it.record("index", "slice", [v, idx], {}, node)  # the term stays the element-wise value; the bounds are in the event
        return r
    if isinstance(idx, Seq) and idx.kind == "tuple" and len(idx.items) == 2 and isinstance(idx.items[0], SliceV) and idx.items[0].is_full() \
            and (is_pyconst(idx.items[1]) or getattr(idx.items[1], "is_scalar_index", False)):
        r = Val(call("column", v.term, to_term(idx.items[1])), space=v.space, pos_of=v.pos_of)  # column k of a per-row (N,k) result
        r.column_of = v
        return r
    if getattr(idx, "scalar_pos", False) or getattr(idx, "is_scalar_index", False):
        fr_ = getattr(v, "of_frame", None)
        if getattr(v, "series", False) and fr_ is not None and not getattr(idx, "is_label", False) and not fr_.labels_positional:
            # <column>[i] with a running position i: pandas looks i up among the row LABELS of the column
            it.record("typing", "series-by-position", [v, idx], {}, node)
        r = Val(call("elem", v.term, to_term(idx)))
        r.elem_of = v
        r.elem_index = idx
        if v.pos_of is not None:  # an element of a position array is itself a (scalar) position
            r.pos_of = v.pos_of
            r.scalar_pos = True
        it.record("index", "element", [v, idx], {}, node)
        return r
    if is_pyconst(idx):
        r = Val(call("elem", v.term, to_term(idx)), pos_of=None)
        r.elem_of = v
        r.elem_index = idx
        if v.pos_of is not None:
            r.pos_of = v.pos_of
            r.scalar_pos = True
        if getattr(v, "iter_kind", None) == "groupby" and getattr(v, "of_frame", None) is not None:
            # frame.groupby(keys)[column]: the groups of one column -- still the rows and labels of the grouped table
            r.iter_kind = "groupby-column"
            r.of_frame = v.of_frame
            r.colname = pyval(idx) if isinstance(pyval(idx), str) else None
        return r
    # mask / positions
    r = Val(v.term, space=index_space(it, v, idx, node), pos_of=v.pos_of)
    r.indexed_by = idx
    it.record("index", "getitem", [v, idx], {}, node, {"result": r})
    return r


def index_space(it, base, idx, node):
    """row space of base[idx] (E6)"""
    pos = getattr(idx, "pos_of", None)
    if pos is not None:
        return getattr(idx, "space", None)
    if getattr(idx, "scalar_pos", False):
        return None
    it_ = to_term(idx)
    return Space(f"[{tm.show(it_)[:50]}]", parent=getattr(base, "space", None), how="filter", key=it_.key())


def arr_getitem(it, a, idx, node):
    if isinstance(idx, Seq) and idx.kind == "tuple" and a.ndim == 2 and len(idx.items) in (2, 3) and is_pyconst(idx.items[0]) \
            and pyval(idx.items[0]) is None and all((isinstance(x, SliceV) and x.is_full()) or (is_pyconst(x) and pyval(x) is Ellipsis)
                                                    for x in idx.items[1:]) \
            and (len(idx.items) == 3 or (is_pyconst(idx.items[1]) and pyval(idx.items[1]) is Ellipsis)):
        # a[np.newaxis, :, :] / a[None, ...] : the (1, N, k) view of an (N, k) array, the same thing reshape((1, N, k)) gives
        shp = getattr_(it, a, "shape", node, None)
        from .libcalls import arr_method
        return arr_method(it, a, "reshape", [Seq([K(1)] + list(shp.items), "tuple")], {}, node, None)
    if is_pyconst(idx) and pyval(idx) is None and a.ndim == 2:
        shp = getattr_(it, a, "shape", node, None)
        from .libcalls import arr_method
        return arr_method(it, a, "reshape", [Seq([K(1)] + list(shp.items), "tuple")], {}, node, None)
    if isinstance(idx, Seq) and idx.kind == "tuple" and len(idx.items) == 2 and a.ndim == 2:
        r, c = idx.items
        # column part
        if is_pyconst(c) and isinstance(pyval(c), int):
            try:
                col = a.cols[pyval(c)]
            except IndexError:
                raise Unsupported("array column index out of range", node)
            out = Val(col, space=a.space)
        elif isinstance(c, SliceV):
            lo = pyval(c.lower) if c.lower is not None else None
            hi = pyval(c.upper) if c.upper is not None else None
            stp = pyval(c.step) if c.step is not None else None
            out = Arr(a.cols[slice(lo, hi, stp)], 2, a.space, a.single_row)
        elif is_pyconst(c) and isinstance(pyval(c), list):
            out = Arr([a.cols[i] for i in pyval(c)], 2, a.space, a.single_row)
        else:
            raise Unsupported("array column selector", node)
        # row part
        if isinstance(r, SliceV) and r.is_full():
            return out
        if is_pyconst(r) and isinstance(pyval(r), int) and a.single_row:
            if isinstance(out, Arr):
                return Arr(out.cols, 1)
            return Val(out.term)
        return row_select(it, out, r, node)
    if a.ndim == 2:
        if is_pyconst(idx) and isinstance(pyval(idx), int):
            if a.single_row:
                return Arr(a.cols, 1)
            r = Arr([call("rowelem", c, const(pyval(idx))) for c in a.cols], 1)
            return r
        if isinstance(idx, SliceV) and idx.is_full():
            return a
        return row_select(it, a, idx, node)
    # 1-D vector
    if is_pyconst(idx) and isinstance(pyval(idx), int):
        try:
            return Val(a.cols[pyval(idx)])
        except IndexError:
            raise Unsupported("vector index out of range", node)
    if isinstance(idx, SliceV):
        lo = pyval(idx.lower) if idx.lower is not None else None
        hi = pyval(idx.upper) if idx.upper is not None else None
        stp = pyval(idx.step) if idx.step is not None else None
        return Arr(a.cols[slice(lo, hi, stp)], 1)
    if isinstance(idx, Seq) and idx.kind == "tuple" and len(idx.items) == 2:
        r, c = idx.items
        if is_pyconst(r) and pyval(r) is None:  # v[np.newaxis, :]
            return Arr(a.cols, 2, single_row=True)
        if is_pyconst(c) and pyval(c) is None:
            return Unk(call("colvec", to_term(a)))
    return Unk(call("getitem", to_term(a), to_term(idx)))


def row_select(it, out, r, node):
    """rows of an (N,k) array / N-vector selected by a mask, positions, slice or a scalar position"""
    if isinstance(r, SliceV):
        sp = Space("slice", parent=out.space, how="slice")
        if isinstance(out, Arr):
            return Arr(out.cols, out.ndim, sp)
        return Val(out.term, space=sp)
    scalar = getattr(r, "scalar_pos", False) or getattr(r, "is_scalar_index", False)
    it.record("index", "rows", [out, r], {}, node)
    if scalar:
        if isinstance(out, Arr):
            a = Arr([call("at", c, to_term(r)) for c in out.cols], 1)
            a.row_of = (out, r)
            return a
        v = Val(call("at", out.term, to_term(r)))
        v.row_of = (out, r)
        return v
    sp = index_space(it, out, r, node)
    if isinstance(out, Arr):
        a = Arr(out.cols, out.ndim, sp)
        a.indexed_by = r
        return a
    v = Val(out.term, space=sp)
    v.indexed_by = r
    return v


def indexer_get(it, ix, idx, node, fr):
    base = ix.recv
    if isinstance(base, Frame):
        if isinstance(idx, Seq) and idx.kind == "tuple" and len(idx.items) == 2:
            r, c = idx.items
            f = base
            if not (isinstance(r, SliceV) and r.is_full()):
                if isinstance(r, SliceV):
                    raise Unsupported("row slice through .loc/.iloc", node)
                if is_mask(r) and getattr(r, "pos_of", None) is None and not getattr(r, "scalar_pos", False) \
                        and not getattr(r, "is_label", False) and ix.kind == "loc":
                    f = filter_frame(it, base, r, node)
                else:
                    f = frame_take(it, base, r, ix.kind, node)
            if isinstance(c, SliceV):
                if c.is_full():
                    return f
                if ix.kind == "iloc":
                    if f.order is None and getattr(f, "order_from_input", False):
                        from .values import ColumnOrderUnknown
                        raise ColumnOrderUnknown("columns are taken by position (iloc[:, a:b]) from a table whose column order is the input "
                                                 "file's: which columns are meant depends on how the file happens to be laid out", node)
                    if f.order is None:
                        raise Unsupported("iloc column slice on a table of unknown column order", node)
                    lo = pyval(c.lower) if c.lower is not None else None
                    hi = pyval(c.upper) if c.upper is not None else None
                    return frame_select(it, f, f.order[slice(lo, hi)], node)
                lo, hi = pyval(c.lower), pyval(c.upper)
                if f.order is None:
                    raise Unsupported("label slice on a table of unknown column order", node)
                i0, i1 = f.order.index(lo), f.order.index(hi)
                return frame_select(it, f, f.order[i0:i1 + 1], node)
            if getattr(c, "colmask", None) is not None and c.colmask[0] is base:
                names_ = c.colmask[1]
                g = f.clone()
                g.cols = {}
                for n_ in names_:
                    try:
                        g.cols[n_] = f.col(n_)
                    except KeyError:
                        pass
                g.order = [n_ for n_ in f.order if n_ in names_] if f.order is not None else None
                g.open = False
                g.order_from_input = f.order is None
                return g
            sel = _colsel(c)
            if sel is None and isinstance(c, Seq) and all(is_pyconst(x) for x in c.items) and c.items:
                sel = [pyval(x) for x in c.items]
            if isinstance(sel, str):
                try:
                    s = series_of(f, sel)
                except KeyError:
                    raise Unsupported(f"column {sel!r} not in table", node)
                if getattr(f, "single_label", False):
                    s.series = False
                return s
            if isinstance(sel, list):
                return frame_select(it, f, sel, node)
            if ix.kind == "iloc" and is_pyconst(c) and isinstance(pyval(c), int) and f.order is not None:
                return series_of(f, f.order[pyval(c)])
            if isinstance(c, (Val, Unk)):
                # column named by a parameter (feature_id)
                name = to_term(c)
                v = Val(call("col", const(f.name), name), space=f.space, series=True)
                v.of_frame = f
                v.colname_term = name
                return v
            raise Unsupported(".loc column selector", node)
        # single selector: rows
        if isinstance(idx, SliceV) and idx.is_full():
            return base
        if is_mask(idx) and getattr(idx, "pos_of", None) is None and ix.kind == "loc" and not getattr(idx, "scalar_pos", False):
            return filter_frame(it, base, idx, node)
        return frame_take(it, base, idx, ix.kind, node)
    if isinstance(base, Val):
        if is_pyconst(idx) and isinstance(pyval(idx), int):
            r = Val(call("first" if pyval(idx) == 0 else "elem", base.term, const(pyval(idx))) if True else base.term)
            r.elem_of = base
            r.elem_index = idx
            if ix.kind == "iloc" and pyval(idx) == 0:
                # value of the first row of an (already filtered) column: a per-row scalar
                r = Val(base.term)
                r.first_of = base
            return r
        return val_getitem(it, base, idx, node)
    if isinstance(base, Unk):
        r = Unk(call(ix.kind, base.term, to_term(idx)), space=base.space)
        it.record("index", ix.kind, [base, idx], {}, node, {"result": r})
        return r
    raise Unsupported(f".{ix.kind} on {type(base).__name__}", node)


def frame_take(it, f, r, kind, node):
    """rows selected by labels (.loc) or positions (.iloc)"""
    nf = f.clone()
    nf.space = index_space(it, f, r, node) if not (is_pyconst(r)) else None
    nf.taken_by = (r, kind)
    nf.labels_positional = False
    if is_pyconst(r) and isinstance(pyval(r), int) or getattr(r, "scalar_pos", False) or getattr(r, "is_scalar_index", False) \
            or getattr(r, "is_label", False):
        nf.row = True
        nf.single_label = True
    it.record("take", kind, [f, r], {}, node, {"result": nf})
    return nf


# ====================================================================================================== stores
def frame_set_columns(it, f, value, node):
    try:
        names = pyval(value)
    except NotConst:
        f.order = None
        f.notes.append(("columns-renamed-unknown", 0))
        it.record("setcolumns", "columns", [f, value], {}, node)
        return
    if getattr(f, "int_columns", False) and not f.written and f.order == list(range(len(f.order or []))):
        # a table read without a header: its width is whatever the file has; naming k columns asserts width k
        f.cols = {n: sym(f"csv:{i}") for i, n in enumerate(names)}
        f.order = list(names)
        f.int_columns = False
        it.record("setcolumns", "columns", [f, value], {}, node)
        return
    old = f.names()
    if f.order is None or len(old) != len(names):
        # a freshly read table whose width is unknown: adopt the names (open table)
        f.cols = {n: sym(f"{f.prefix}{n}") for n in names} if not f.cols else f.cols
        if f.cols and len(f.cols) != len(names):
            raise Unsupported("renaming columns: width mismatch", node)
    newcols = {}
    for o, n in zip(f.names(), names):
        newcols[n] = f.cols[o]
    f.cols = newcols
    f.order = list(names)
    it.record("setcolumns", "columns", [f, value], {}, node)


def _bcast_cols(value, n, node):
    """value as a list of n per-column terms"""
    if isinstance(value, Frame):
        if value.order is None or len(value.order) != n:
            raise Unsupported("storing a table of different width", node)
        return [value.cols[c] for c in value.order]
    a = as_arr(value) if not isinstance(value, Val) else None
    if a is not None:
        if len(a.cols) == n:
            return list(a.cols)
        if len(a.cols) == 1:
            return [a.cols[0]] * n
        if a.ndim == 1 and len({c.key() for c in a.cols}) == 1:
            return [a.cols[0]] * n  # a vector of identical element-wise values (np.full((k,), v) combined with columns)
        raise Unsupported(f"storing {len(a.cols)} components into {n} columns", node)
    t = to_term(value)
    if isinstance(value, Unk) and n > 1:
        return [call("comp", t, const(i)) for i in range(n)]
    return [t] * n


def store_cols(it, f, names, value, node, mask=None):
    terms_ = _bcast_cols(value, len(names), node)
    kv_ = label_key(value)
    vs = getattr(value, "space", None)
    if not f.row and label_key(f) == ("empty", None):
        # a table without rows takes over the row labels (and the rows) of the first column stored into it
        f.adopted = True
        if kv_ is not None:
            f.labels_positional = kv_[0] == "pos"
            f.lab_root = kv_[1]
        else:
            f.labels_positional = True
            f.lab_root = object()
        if vs is not None:
            f.space = vs
    elif kv_ is not None and not f.row:
        check_labels(it, "store", f, value, node)
    if vs is not None and f.space is None and not f.row and mask is None:
        f.space = vs  # a freshly allocated table (np.zeros((n, k))): a full column stored into it fixes which rows it holds
    if vs is not None and f.space is not None and not vs.same(f.space) and not f.row:
        masked_same = (mask is not None and vs.how == "filter" and vs.parent is not None and vs.parent.same(f.space)
                       and vs.key == to_term(mask).key())  # df.loc[m, c] = f(df.loc[m, c]): the value lives in exactly the stored rows
        if not masked_same:
            it.record("space-mismatch", "store", [f, value], {}, node, {"frame_space": f.space, "value_space": vs, "names": list(names)})
    g = it.store_guard()
    if g is not None:
        mask = g if mask is None else mk("and", mask, g)
    for n, t in zip(names, terms_):
        if mask is not None and getattr(f, "alloc", None) in ("zeros", "ones", "empty", "full") and is_const(t) \
                and isinstance(t.args[0], str) and n in f.cols and is_const(f.cols[n]) and not isinstance(f.cols[n].args[0], str):
            it.record("api", "str-into-float-column", [f, K(n), value], {}, node)
        if mask is not None:
            try:
                old = f.col(n)
            except KeyError:
                old = call("absent", const(n))
            t = mk("ite", mask, t, old)
        new_col = n not in f.cols
        f.cols[n] = t
        f.written.add(n)
        if new_col and f.order is not None:
            f.order.append(n)
    it.record("store", "columns", [f, Seq([K(n) for n in names]), value], {}, node,
              {"mask": mask, "frame": f, "names": list(names)})


def setitem(it, obj, idx, value, node, fr):
    if isinstance(obj, Indexer):
        base = obj.recv
        if isinstance(base, Frame):
            if isinstance(idx, Seq) and idx.kind == "tuple" and len(idx.items) == 2:
                r, c = idx.items
                mask = None
                if not (isinstance(r, SliceV) and r.is_full()):
                    mask = to_term(r)
                    if getattr(r, "pos_of", None) is not None:
                        it.record("index", obj.kind + "-store", [base, r], {}, node)
                if isinstance(c, SliceV) and c.is_full():
                    names = base.names()
                else:
                    sel = _colsel(c)
                    if sel is None and isinstance(c, Seq) and getattr(c, "of_frame", None) is not None and all(is_pyconst(x) for x in c.items):
                        sel = [pyval(x) for x in c.items]
                    if sel is None and obj.kind == "iloc" and isinstance(c, SliceV) and base.order is not None:
                        lo_ = pyval(c.lower) if c.lower is not None else None
                        hi_ = pyval(c.upper) if c.upper is not None else None
                        sel = base.order[slice(lo_, hi_)]
                    if sel is None and obj.kind == "iloc" and is_pyconst(c) and isinstance(pyval(c), int) and base.order is not None:
                        sel = [base.order[pyval(c)]]
                    if sel is None:
                        if isinstance(c, SliceV) and base.order is not None and obj.kind == "loc":
                            lo, hi = pyval(c.lower), pyval(c.upper)
                            names = base.order[base.order.index(lo):base.order.index(hi) + 1]
                        elif isinstance(c, (Val, Unk)):
                            it.record("store", "dynamic-column", [base, c, value], {}, node, {"mask": mask, "frame": base})
                            base.notes.append(("dynamic-column-store", to_term(c)))
                            return
                        else:
                            raise Unsupported(".loc store column selector", node)
                    else:
                        names = [sel] if isinstance(sel, str) else sel
                store_cols(it, base, names, value, node, mask)
                return
            if obj.kind == "loc" and isinstance(idx, (Val, Unk)) and isinstance(value, Frame):
                # df.loc[rows] = other_table : all columns of the selected rows
                store_cols(it, base, base.names(), value, node, to_term(idx))
                return
            raise Unsupported(".loc store form", node)
        if isinstance(base, (Val, Unk)):
            it.record("store", "opaque", [base, idx, value], {}, node)
            return
        raise Unsupported("indexer store", node)
    if isinstance(obj, Frame):
        sel = _colsel(idx)
        if isinstance(sel, str):
            store_cols(it, obj, [sel], value, node)
            return
        if isinstance(sel, list):
            store_cols(it, obj, sel, value, node)
            return
        if isinstance(idx, (Val, Unk)) and not is_pyconst(idx):
            if getattr(idx, "series", False) or tm.contains(to_term(idx), lambda n: n.op in ("lt", "gt", "le", "ge", "eq", "ne")):
                # df[mask] = v
                store_cols(it, obj, obj.names(), value, node, to_term(idx))
                return
            it.record("store", "dynamic-column", [obj, idx, value], {}, node, {"frame": obj})
            obj.notes.append(("dynamic-column-store", to_term(idx)))
            return
        raise Unsupported("table store form", node)
    if isinstance(obj, Arr):
        arr_setitem(it, obj, idx, value, node)
        return
    if isinstance(obj, Seq):
        if is_pyconst(idx) and isinstance(pyval(idx), int):
            obj.items[pyval(idx)] = value
            return
        it.record("store", "seq", [obj, idx, value], {}, node)
        return
    if isinstance(obj, DictV):
        try:
            obj.items[pyval(idx)] = value
        except NotConst:
            it.record("store", "dict-dynamic", [obj, idx, value], {}, node)
        return
    if isinstance(obj, Unk) and getattr(obj, "is_mat", False):
        spec = _const_index(idx)
        tgt = node.targets[0] if isinstance(node, ast.Assign) else getattr(node, "target", None)
        if spec is not None and isinstance(tgt, ast.Subscript) and isinstance(tgt.value, ast.Name):
            u = Unk(T("setblock", obj.term, const(spec), to_term(value)))
            u.is_mat = True
            fr.env[tgt.value.id] = u
            it.record("store", "matrix-block", [obj, idx, value], {}, node)
            return
        raise Unsupported("store into a small matrix with a non-literal index", node)
    if isinstance(obj, (Val, Unk)):
        # masked / positional store into an element-wise value held in a variable: rewrite the variable
        it.record("store", "elementwise", [obj, idx, value], {}, node)
        tgt = node.targets[0] if isinstance(node, ast.Assign) else getattr(node, "target", None)
        if isinstance(tgt, ast.Subscript) and isinstance(tgt.value, ast.Name) and isinstance(obj, Val):
            nv = imgdom.index_store(it, obj, idx, value, node)
            if nv is None:
                nv = imgdom.slab_store(it, obj, idx, value, node)
            if nv is not None:
                nv.fresh = getattr(obj, "fresh", None)
                fr.env[tgt.value.id] = nv
                return
        if isinstance(tgt, ast.Subscript) and isinstance(tgt.value, ast.Name):
            name = tgt.value.id
            if isinstance(idx, Seq) and len(idx.items) == 1 and getattr(idx.items[0], "mask", None) is not None:
                idx = idx.items[0].mask  # x[np.where(mask)] = v  ==  x[mask] = v
            elif getattr(idx, "mask", None) is not None and getattr(idx, "pos_of", None) is not None:
                idx = idx.mask
            if isinstance(idx, Seq) and idx.kind == "tuple" and idx.items and all(isinstance(x, SliceV) and x.is_full() for x in idx.items):
                idx = idx.items[0]
            if isinstance(idx, SliceV) and idx.is_full():
                new = Val(to_term(value), space=obj.space)
                if getattr(value, "axes", None) is not None:
                    new.axes = value.axes
            elif getattr(idx, "scalar_pos", False) or is_pyconst(idx) or getattr(idx, "is_scalar_index", False):
                new = Val(call("setelem", obj.term, to_term(idx), to_term(value)), space=obj.space)
                new.before_store = obj
            else:
                new = Val(mk("ite", to_term(idx), to_term(value), obj.term), space=obj.space)
            for a in ("pos_of", "axes"):
                if getattr(obj, a, None) is not None:
                    setattr(new, a, getattr(obj, a))
            if getattr(value, "axes", None) is not None and getattr(new, "axes", None) is None:
                new.axes = value.axes
            if getattr(new, "axes", None) is None and getattr(idx, "axes", None) is not None and getattr(obj, "alloc", None) in ("zeros", "ones", "full") \
                    and tm.is_const(obj.term) and new.term.op == "ite":
                # a constant array (np.zeros(shape)) filled where a mask over an index grid holds: an index function over the mask's grid
                new.axes = idx.axes
            fr.env[name] = new
        return
    if isinstance(obj, Obj):
        it.record("store", "obj", [obj, idx, value], {}, node)
        return
    raise Unsupported(f"store into {type(obj).__name__}", node)


def _const_index(idx):
    """python index object (ints / slices, possibly a tuple) for a literal subscript, else None"""
    def one(x):
        if isinstance(x, SliceV):
            vals = []
            for y in (x.lower, x.upper, x.step):
                if y is None:
                    vals.append(None)
                elif is_pyconst(y) and (pyval(y) is None or isinstance(pyval(y), int)):
                    vals.append(pyval(y))
                else:
                    raise NotConst("slice bound")
            return slice(*vals)
        if is_pyconst(x) and isinstance(pyval(x), int):
            return pyval(x)
        raise NotConst("index")
    try:
        if isinstance(idx, Seq) and idx.kind == "tuple":
            return tuple(one(x) for x in idx.items)
        return one(idx)
    except NotConst:
        return None


def _typed_store(it, a, terms_, value, node):
    if getattr(a, "like_input", False) and any(n_.op in ("div", "sqrt", "sin", "cos", "tan", "arctan2", "arccos", "arcsin", "degrees", "radians", "exp", "log")
                                                for t_ in terms_ for n_ in tm.walk(t_)):
        it.record("typing", "inherited-dtype-store", [a, value], {}, node)


def arr_setitem(it, a, idx, value, node):
    if isinstance(idx, Seq) and idx.kind == "tuple" and len(idx.items) == 2 and a.ndim == 2:
        r, c = idx.items
        mask = None if (isinstance(r, SliceV) and r.is_full()) else to_term(r)
        if is_pyconst(c) and isinstance(pyval(c), int):
            ks = [pyval(c)]
        elif isinstance(c, SliceV):
            lo = pyval(c.lower) if c.lower is not None else None
            hi = pyval(c.upper) if c.upper is not None else None
            ks = list(range(len(a.cols)))[slice(lo, hi)]
        elif is_pyconst(c) and isinstance(pyval(c), list):
            ks = pyval(c)
        else:
            raise Unsupported("array store column selector", node)
        terms_ = _bcast_cols(value, len(ks), node)
        _typed_store(it, a, terms_, value, node)
        nd_ = getattr(a, "alloc_dtype", None)
        if nd_ is not None:
            terms_ = [T("narrow", t, const(nd_)) for t in terms_]  # stored into an array of a narrower type: converted on the way in
        for k, t in zip(ks, terms_):
            a.cols[k] = mk("ite", mask, t, a.cols[k]) if mask is not None else t
        it.record("store", "array", [a, idx, value], {}, node)
        return
    if a.ndim == 1 and is_pyconst(idx) and isinstance(pyval(idx), int):
        a.cols[pyval(idx)] = to_term(value)
        return
    if isinstance(idx, SliceV) and idx.is_full():
        terms_ = _bcast_cols(value, len(a.cols), node)
        a.cols[:] = terms_
        return
    if a.ndim == 2 and is_mask(idx):
        mask = to_term(idx)
        terms_ = _bcast_cols(value, len(a.cols), node)
        _typed_store(it, a, terms_, value, node)
        nd_ = getattr(a, "alloc_dtype", None)
        if nd_ is not None:
            terms_ = [T("narrow", t, const(nd_)) for t in terms_]
        a.cols[:] = [mk("ite", mask, t, c) for t, c in zip(terms_, a.cols)]
        it.record("store", "array", [a, idx, value], {}, node)
        return
    if a.ndim == 2 and isinstance(idx, Arr) and idx.ndim == 2 and len(idx.cols) == len(a.cols) and isinstance(value, Arr) and len(value.cols) == len(a.cols):
        # a[M] = b[M] with an element-wise mask M of a's own shape: every element for which its own flag is set is replaced
        a.cols[:] = [mk("ite", m_, v_, c_) for m_, v_, c_ in zip(idx.cols, value.cols, a.cols)]
        it.record("store", "array", [a, idx, value], {}, node)
        return
    if a.ndim == 2 and isinstance(idx, Arr) and idx.ndim == 2 and len(idx.cols) == len(a.cols) and isinstance(value, (Val, Unk)) and not isinstance(value, Arr):
        v_ = to_term(value)
        a.cols[:] = [mk("ite", m_, v_, c_) for m_, c_ in zip(idx.cols, a.cols)]
        it.record("store", "array", [a, idx, value], {}, node)
        return
    # a store of a form that is not modelled: what the array holds afterwards is unknown (never silently the old content)
    a.cols[:] = [call("stored", c_, to_term(idx), to_term(value)) for c_ in a.cols]
    it.record("store", "array-opaque", [a, idx, value], {}, node)


# ====================================================================================================== generic elems
def generic_element(it, iterable, node):
    """abstract element of an iterable that is not statically enumerable"""
    ln = getattr(node, "lineno", 0)
    if getattr(iterable, "elem", None) is not None and isinstance(iterable, Unk):
        return iterable.elem  # the per-element value of a comprehension result
    if isinstance(iterable, Val) and getattr(iterable, "transposed_of", None) is not None:
        # for col in x.T: one column of the per-row (N, k) value at a time -- x[:, j] for a running j (the same j for every array walked in one loop)
        v_ = iterable.transposed_of
        r_ = Val(call("column", v_.term, call("each_col", const(ln))), space=v_.space, pos_of=v_.pos_of)
        r_.column_of = v_
        return r_
    if isinstance(iterable, Val) and (iterable.series or getattr(iterable, "of_frame", None) is not None) \
            and getattr(iterable, "iter_kind", None) is None and iterable.pos_of is None:
        e = Val(iterable.term)  # element of a column = the row's value (per-row view)
        e.each_of = iterable
        return e
    if isinstance(iterable, Val) or isinstance(iterable, Unk):
        e = Val(call("each", to_term(iterable)))
        e.each_of = iterable
        if getattr(iterable, "pos_of", None) is not None and getattr(iterable, "nested_lists", False):
            e.pos_of = iterable.pos_of
            e.list_of_positions = True  # one list of positions per query point: the element is a list (its truth value = "any hit at all")
        elif getattr(iterable, "pos_of", None) is not None:
            e.pos_of = iterable.pos_of
            e.scalar_pos = True
        if getattr(iterable, "iter_kind", None) == "iterrows":
            f = iterable.of_frame
            row = f.clone(row=True)
            lab = Val(call("rowlabel", const(f.space.id if f.space else 0)))
            lab.is_label = True
            lab.label_of = f
            lab.is_scalar_index = True
            if f.labels_positional:
                lab.pos_of = f.space
                lab.scalar_pos = True
            return Seq([lab, row], "tuple")
        if getattr(iterable, "iter_kind", None) == "itertuples" and getattr(iterable, "of_frame", None) is not None \
                and iterable.of_frame.order is not None and not iterable.of_frame.open:
            # one tuple per row: (label,) + the row's values in column order
            f_ = iterable.of_frame
            vals = [Val(f_.cols[c_], space=f_.space) for c_ in f_.order]
            if getattr(iterable, "with_index", True):
                lab = Val(call("rowlabel", const(f_.space.id if f_.space else 0)))
                lab.is_label = True
                vals = [lab] + vals
            return Seq(vals, "tuple")
        if getattr(iterable, "iter_kind", None) == "enumerate":
            inner = generic_element(it, iterable.inner, node)
            i = Val(call("enum_index", to_term(iterable.inner)))
            i.is_scalar_index = True
            i.scalar_pos = True
            i.pos_of = getattr(iterable.inner, "space", None)
            return Seq([i, inner], "tuple")
        if getattr(iterable, "iter_kind", None) == "zip":
            return Seq([generic_element(it, x, node) for x in iterable.inners], "tuple")
        if getattr(iterable, "iter_kind", None) == "range":
            i = Val(sym(f"ri@{getattr(node, 'lineno', 0)}:{getattr(node, 'col_offset', 0)}"))
            i.is_scalar_index = True
            i.scalar_pos = True
            i.range_args = iterable.range_args
            i.pos_of = getattr(iterable, "range_space", None)
            return i
        if getattr(iterable, "iter_kind", None) == "groupby":
            f = iterable.of_frame
            g = f.clone()
            key = Val(call("groupkey", to_term(iterable.by)))
            g.space = Space("group", parent=f.space, how="group")
            return Seq([key, g], "tuple")
        return e
    if isinstance(iterable, Arr):
        if iterable.ndim == 2:
            a = Arr([call("each", c) for c in iterable.cols], 1)
            a.each_of = iterable
            return a
        e = Val(call("each", to_term(iterable)))
        e.each_of = iterable
        return e
    if isinstance(iterable, Frame):
        # iterating a DataFrame yields column names
        return Val(call("each_column", const(iterable.name)))
    if isinstance(iterable, Seq):
        e = Val(call("each", to_term(iterable)))
        e.each_of = iterable
        return e
    if isinstance(iterable, DictV):
        return Val(call("each_key", to_term(iterable)))
    return Unk(call("each", to_term(iterable)))


# ====================================================================================================== construct
def construct(it, cref, args, kwargs, node, fr):
    obj = Obj(cref.qual)
    init = it.prog.find_method(cref.qual, "__init__")
    if init:
        m, fn = it.prog.lookup(init)
        it.call_func(Func(init, m, fn, bound=obj), args, kwargs, node)
    return obj


# ====================================================================================================== calls
def call_ref(it, name, args, kwargs, node, fr):
    from . import libcalls
    return libcalls.call_ref(it, name, args, kwargs, node, fr)


def call_method(it, recv, name, args, kwargs, node, fr):
    from . import libcalls
    return libcalls.call_method(it, recv, name, args, kwargs, node, fr)
