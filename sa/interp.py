"""The abstract interpreter: a forward dataflow evaluation of one repository function over the term domain
(values.py / terms.py).  It walks the syntax tree -- it never runs repository code -- and computes, for every
variable, table column, array component and call argument, a closed-form term over the function's inputs.

* branches on values the analysis knows (literal options fixed by the obligation's *configuration*) are resolved;
  all other branches are evaluated on both sides and merged with an explicit if-then-else term (phi node);
* loops over literal containers are unrolled; other loops are evaluated once for a generic iteration with the
  loop-carried variables havocked (sound summary), and the events of the generic iteration stay queryable;
* repo-local callees are inlined up to a depth bound; everything else becomes an uninterpreted call term and an
  *event* (callee, abstract arguments, guards, syntax node) that obligations query.
"""
from __future__ import annotations

import ast
import copy

from . import terms as tm
from .terms import T, const, sym, call, mk
from .values import (AV, Val, Arr, Frame, Rot, Seq, DictV, SliceV, Obj, Func, ClassRef, Ref, Method, Indexer, Unk,
                     Space, K, pyval, is_pyconst, to_term, NotConst, Unsupported)

MAX_UNROLL = 64
MAX_DEPTH = 5


REGISTRY = {}  # id(Program) -> interpreters created for it (cross-cutting rules read their events)


class Event:
    def __init__(self, kind, name, args, kwargs, node, fn, guards, extra=None):
        self.kind = kind
        self.name = name
        self.args = args
        self.kwargs = kwargs
        self.node = node
        self.fn = fn
        self.guards = list(guards)
        self.extra = extra or {}

    def arg(self, i=None, kw=None, default=None):
        if kw is not None and kw in self.kwargs:
            return self.kwargs[kw]
        if i is not None and i < len(self.args):
            return self.args[i]
        return default

    def param(self, i=None, name=None, default=None):
        """argument of a call of a repository function, read through the callee's signature: by position (defaults filled in) or by
        parameter name, however the call spells it; falls back to the call as written for library callees"""
        b = self.extra.get("bound")
        if b is not None:
            if name is not None and name in b[1]:
                return b[1][name]
            if i is not None and i < len(b[0]):
                return b[0][i]
            return default
        return self.arg(i, name, default)

    def __repr__(self):
        return f"Event({self.kind} {self.name} @{getattr(self.node, 'lineno', '?')})"


class _Return(Exception):
    pass


class Flow:
    NORMAL, RETURN, RAISE, BREAK, CONTINUE = range(5)


def _arrayish(v):
    """an abstract value that stands for an array (in-place arithmetic on it changes the object every holder sees), not for a number"""
    from . import imgdom as _img
    if isinstance(v, (Arr,)) or type(v).__module__ == _img.__name__:
        return True
    return isinstance(v, (Val, Unk)) and (getattr(v, "rank", None) is not None or getattr(v, "space", None) is not None or getattr(v, "fresh", None) is not None
                                          or getattr(v, "axes", None) is not None)


class Frame_:
    """activation record"""

    def __init__(self, fn_qual, module, env, owner_cls=None):
        self.fn = fn_qual
        self.module = module
        self.env = env
        self.returns = []  # (guards tuple, AV)
        self.owner_cls = owner_cls
        self.ret_guards = []
        self.base_guards = 0
        self.inplace_names = set()  # names whose ARRAY value was updated in place (x += .., ufunc(.., out=x), x[..] = ..): an argument's caller sees it


class Result:
    def __init__(self, ret, returns, env, events, self_obj):
        self.ret = ret
        self.returns = returns
        self.env = env
        self.events = events
        self.self = self_obj

    def calls(self, name_suffix):
        return [e for e in self.events if e.kind == "call" and (e.name == name_suffix or e.name.endswith("." + name_suffix)
                                                                 or e.name.endswith(name_suffix))]


class Interp:
    def __init__(self, prog, assume=None, summaries=None, max_depth=MAX_DEPTH, no_inline=()):
        self.prog = prog
        self.assume = assume or (lambda fn, node, av: None)
        self.summaries = summaries or {}
        self.max_depth = max_depth
        self.no_inline = set(no_inline)
        self.events = []
        self.guards = []
        self.stack = []
        self.loop_depth = 0
        self.notes = []
        from . import lib
        self.lib = lib
        REGISTRY.setdefault(id(prog), []).append(self)

    # ------------------------------------------------------------------ entry
    def run(self, qual, args=None, kwargs=None, self_obj=None):
        m, fn = self.prog.func(qual)
        f = Func(qual, m, fn, bound=self_obj, closure=self.closure_for(qual))
        ret = self.call_func(f, list(args or []), dict(kwargs or {}), fn)
        return Result(ret, self._last_returns, self._last_env, self.events, self_obj)

    def index_symbol(self, length):
        """generic index of the index space of the given length (one symbol per distinct length, decided by random
        interpretation so that arange(n) and arange(1, n+1) share their index)"""
        if not hasattr(self, "_index_syms"):
            self._index_syms = []
        for lt, s_ in self._index_syms:
            if lt == length or tm.equivalent(lt, length, n=8, samplers=self.index_samplers, seed_tag="idx"):
                return s_
        s_ = sym(f"idx{len(self._index_syms)}")
        self._index_syms.append((length, s_))
        return s_

    index_samplers = None

    def grid_symbol(self, k, length):
        """index symbol of axis position k of a grid of the given length (shared by grids of equal length)"""
        if not hasattr(self, "_grid_syms"):
            self._grid_syms = []
        for kk, lt, s_ in self._grid_syms:
            if kk == k and (lt == length or tm.equivalent(lt, length, n=8, samplers=self.index_samplers, seed_tag="grid")):
                return s_
        s_ = sym(f"g{k}_{len(self._grid_syms)}")
        self._grid_syms.append((k, length, s_))
        return s_

    def closure_for(self, qual):
        """free variables of a nested function analysed on its own: the parameters of the enclosing functions, as
        their literal defaults where they have one, else as symbols; nested sibling functions as functions"""
        parts = qual.split(".")
        env = {}
        for i in range(2, len(parts)):
            q = ".".join(parts[:i])
            try:
                m, n = self.prog.lookup(q)
            except Exception:  # noqa
                continue
            if not isinstance(n, ast.FunctionDef):
                continue
            a = n.args
            params = a.posonlyargs + a.args + a.kwonlyargs
            defaults = [None] * (len(a.posonlyargs + a.args) - len(a.defaults)) + list(a.defaults) + list(a.kw_defaults)
            for p_, d in zip(params, defaults):
                if p_.arg in ("self", "cls"):
                    continue
                v = None
                if d is not None:
                    try:
                        v = K(ast.literal_eval(d))
                    except Exception:  # noqa
                        v = None
                env[p_.arg] = v if v is not None else Val(sym(p_.arg))
            for sub in ast.walk(n):
                if isinstance(sub, ast.FunctionDef) and sub is not n:
                    env.setdefault(sub.name, Func(q + "." + sub.name, m, sub, closure=env))
        return env or None

    def record(self, kind, name, args, kwargs, node, extra=None):
        ev = Event(kind, name, args, kwargs, node, self.stack[-1].fn if self.stack else "?", self.guards, extra)
        ev.in_loop = self.loop_depth
        self.events.append(ev)
        return ev

    # ------------------------------------------------------------------ calling repo functions
    def signature_view(self, f, args, kwargs):
        """a call as the callee's signature spells it: ([every positional parameter in order, defaults filled in], {name: value} for all
        parameters); None for *args / **kwargs callees"""
        a_ = f.node.args
        if a_.vararg or a_.kwarg:
            return None
        try:
            env_ = self.bind_params(f.node, list(args), dict(kwargs), f.bound, f.module, f.qual)
        except Unsupported:
            return None
        names_ = [p_.arg for p_ in a_.posonlyargs + a_.args]
        decos = {ast.unparse(d) for d in f.node.decorator_list}
        if names_ and names_[0] in ("self", "cls") and "staticmethod" not in decos and (f.bound is not None or "classmethod" in decos):
            names_ = names_[1:]
        return [env_[p_] for p_ in names_], {**{p_: env_[p_] for p_ in names_}, **{p_.arg: env_[p_.arg] for p_ in a_.kwonlyargs}}

    def bind_params(self, fnode, args, kwargs, bound, module, qual):
        env = {}
        a = fnode.args
        params = [p.arg for p in a.posonlyargs + a.args]
        args = list(args)
        decos = [self.prog.resolve(module, d) or (d.id if isinstance(d, ast.Name) else "") for d in fnode.decorator_list]
        is_static = any(d and d.endswith("staticmethod") for d in decos)
        is_cls = any(d and d.endswith("classmethod") for d in decos)
        if bound is not None and not is_static:
            if is_cls:
                b = bound if isinstance(bound, ClassRef) else ClassRef(bound.cls) if isinstance(bound, Obj) else bound
                args = [b] + args
            else:
                args = [bound] + args
        elif is_cls and bound is None:
            owner = self.prog.enclosing_class(qual)
            args = [ClassRef(owner)] + args
        defaults = a.defaults
        nd = len(defaults)
        for i, p in enumerate(params):
            if i < len(args):
                env[p] = args[i]
            elif p in kwargs:
                env[p] = kwargs.pop(p)
            else:
                di = i - (len(params) - nd)
                if di >= 0:
                    env[p] = self.eval(defaults[di], Frame_(qual, module, {}))
                else:
                    env[p] = Unk(sym(p), why="unbound parameter")
        for p, d in zip(a.kwonlyargs, a.kw_defaults):
            if p.arg in kwargs:
                env[p.arg] = kwargs.pop(p.arg)
            elif d is not None:
                env[p.arg] = self.eval(d, Frame_(qual, module, {}))
            else:
                env[p.arg] = Unk(sym(p.arg))
        if a.vararg:
            env[a.vararg.arg] = Seq(args[len(params):], "tuple")
        if a.kwarg:
            env[a.kwarg.arg] = DictV(kwargs)
        return env

    def call_func(self, f, args, kwargs, node):
        if len(self.stack) >= self.max_depth:
            return Unk(call("deep:" + f.qual, *[to_term(a) for a in args]), why="inlining depth bound")
        env = self.bind_params(f.node, args, kwargs, f.bound, f.module, f.qual)
        if f.closure:
            base = dict(f.closure)
            base.update(env)
            env = base
        fr = Frame_(f.qual, f.module, env, self.prog.enclosing_class(f.qual))
        fr.base_guards = len(self.guards)
        self.stack.append(fr)
        saved_guards = self.guards
        self.guards = list(self.guards)
        base_guards = len(self.guards)
        try:
            self.exec_block(f.node.body, fr)
        finally:
            self.stack.pop()
            self.guards = saved_guards
        if fr.inplace_names and self.stack and isinstance(node, ast.Call):
            # an array parameter updated in place inside the callee is the caller's array: the caller's variable sees the update
            a_ = f.node.args
            pnames = [x.arg for x in a_.posonlyargs + a_.args]
            if getattr(f, "bound", None) is not None and pnames:
                pnames = pnames[1:]
            caller = self.stack[-1]
            argnode = {}
            for i_, an_ in enumerate(node.args):
                if isinstance(an_, ast.Starred):
                    break
                if i_ < len(pnames):
                    argnode[pnames[i_]] = an_
            for k_ in node.keywords:
                if k_.arg is not None:
                    argnode[k_.arg] = k_.value
            for p_ in fr.inplace_names:
                an_ = argnode.get(p_)
                if isinstance(an_, ast.Name) and an_.id in caller.env and p_ in fr.env:
                    g_ = self.store_guard()
                    caller.env[an_.id] = fr.env[p_] if g_ is None else self.join(g_, fr.env[p_], caller.env[an_.id])
                    caller.inplace_names.add(an_.id)
                    self.record("inplace", "through-callee", [fr.env[p_]], {}, node, {"callee": f.qual, "parameter": p_, "argument": an_.id})
        self._last_env = fr.env
        self._last_returns = fr.returns
        if not fr.returns:
            return K(None)
        # merge returns (guards beyond the call's base guards discriminate)
        ret = None
        for guards, val in reversed(fr.returns):
            g = guards[base_guards:]
            if ret is None:
                ret = val
            else:
                cond = None
                for c in g:
                    cond = c if cond is None else mk("and", cond, c)
                ret = self.join(cond if cond is not None else const(True), val, ret)
        return ret

    # ------------------------------------------------------------------ statements
    def exec_block(self, stmts, fr):
        for st in stmts:
            flow = self.exec_stmt(st, fr)
            if flow != Flow.NORMAL:
                return flow
        return Flow.NORMAL

    def exec_stmt(self, st, fr):
        if isinstance(st, ast.Expr):
            if isinstance(st.value, ast.Constant):
                return Flow.NORMAL
            self.eval(st.value, fr)
            return Flow.NORMAL
        if isinstance(st, ast.Assign):
            for t_ in st.targets:
                if isinstance(t_, ast.Subscript) and isinstance(t_.value, ast.Name) and _arrayish(fr.env.get(t_.value.id)):
                    fr.inplace_names.add(t_.value.id)
            v = self.eval(st.value, fr)
            vn = st.value
            if isinstance(vn, (ast.Compare, ast.BoolOp)) or (isinstance(vn, ast.UnaryOp) and isinstance(vn.op, ast.Not)) \
                    or (isinstance(vn, ast.Call) and isinstance(vn.func, ast.Name) and vn.func.id == "isinstance"):
                # a branch test kept in a temporary (flag = isinstance(x, list) ... if flag:): the configured outcome of the test
                # is the value of the flag
                try:
                    d_ = self.assume(fr.fn, vn, v, fr.module)
                except TypeError:
                    d_ = self.assume(fr.fn, vn, v)
                if isinstance(d_, bool) and not is_pyconst(v):
                    v = K(d_)
            for t in st.targets:
                self.assign(t, v, fr, st)
            return Flow.NORMAL
        if isinstance(st, ast.AnnAssign):
            if st.value is not None:
                self.assign(st.target, self.eval(st.value, fr), fr, st)
            return Flow.NORMAL
        if isinstance(st, ast.AugAssign):
            cur = self.eval(_load(st.target), fr)
            self.record("inplace", type(st.op).__name__, [cur], {}, st, {"fresh": getattr(cur, "fresh", None)})
            v = self.binop(st.op, cur, self.eval(st.value, fr), st)
            vo = getattr(cur, "view_of", None)
            if vo is not None and isinstance(st.target, ast.Name) and isinstance(v, Val):
                # the name is bound to a view of a column of another array: the in-place operation writes through to that array
                arr_, k_ = vo
                g_ = self.store_guard()
                arr_.cols[k_] = v.term if g_ is None else mk("ite", g_, v.term, arr_.cols[k_])
                v.view_of = vo
                self.record("inplace", "through-view", [arr_, v], {}, st, {"column": k_})
            self.assign(st.target, v, fr, st, aug=True)
            if isinstance(st.target, ast.Name) and _arrayish(cur):
                fr.inplace_names.add(st.target.id)
            return Flow.NORMAL
        if isinstance(st, ast.Return):
            v = self.eval(st.value, fr) if st.value is not None else K(None)
            fr.returns.append((tuple(self.guards) + tuple(mk("not", rg) for rg in fr.ret_guards), v))
            self.record("return", fr.fn, [v], {}, st)
            return Flow.RETURN
        if isinstance(st, ast.Raise):
            self.record("raise", "raise", [], {}, st)
            return Flow.RAISE
        if isinstance(st, ast.If):
            return self.exec_if(st, fr)
        if isinstance(st, (ast.For, ast.AsyncFor)):
            return self.exec_for(st, fr)
        if isinstance(st, ast.While):
            return self.exec_while(st, fr)
        if isinstance(st, ast.Try):
            flow = self.exec_block(st.body, fr)
            if flow == Flow.NORMAL and st.orelse:
                flow = self.exec_block(st.orelse, fr)
            if st.finalbody:
                f2 = self.exec_block(st.finalbody, fr)
                if f2 != Flow.NORMAL:
                    return f2
            if flow == Flow.RAISE and st.handlers:
                # the handler path: evaluated for its effects only when the body is a bare raise
                return Flow.NORMAL
            return flow
        if isinstance(st, ast.With):
            for item in st.items:
                v = self.eval(item.context_expr, fr)
                if item.optional_vars is not None:
                    self.assign(item.optional_vars, v, fr, st)
            return self.exec_block(st.body, fr)
        if isinstance(st, (ast.FunctionDef, ast.AsyncFunctionDef)):
            fr.env[st.name] = Func(fr.fn + "." + st.name, fr.module, st, closure=fr.env)
            return Flow.NORMAL
        if isinstance(st, (ast.Pass, ast.Import, ast.ImportFrom, ast.Global, ast.Nonlocal, ast.Assert, ast.Delete)):
            return Flow.NORMAL
        if isinstance(st, ast.Break):
            return Flow.BREAK
        if isinstance(st, ast.Continue):
            return Flow.CONTINUE
        raise Unsupported(f"statement {type(st).__name__}", st)

    # ---- if
    def truth(self, av, node, fr):
        """True / False when statically known (constants or the obligation's configuration), else None"""
        try:
            d = self.assume(fr.fn, node, av, fr.module)
        except TypeError:
            d = self.assume(fr.fn, node, av)
        if d is not None:
            return bool(d)
        try:
            v = pyval(av)
            return bool(v)
        except NotConst:
            pass
        if isinstance(av, Seq):
            return True if av.kind == "match" else len(av.items) > 0
        if isinstance(av, (Obj, Func, ClassRef, Ref, Frame)):
            if isinstance(av, Frame):
                return None
            return True
        self._number_truth(av, node, fr)
        return None

    _BOOLISH = ("eq", "ne", "lt", "le", "and", "or", "not", "ite")
    _BOOL_CALLS = ("isin", "in", "in_labels", "hasattr", "isinstance", "callable", "nrows", "empty", "reduce:any", "reduce:all", "os.path.isfile", "os.path.exists",
                   "numpy.isnan", "numpy.isfinite", "numpy.isclose", "numpy.allclose", "numpy.array_equal", "numpy.any", "numpy.all", "len", "bool",
                   "builtins.bool", "builtins.len", "str.startswith", "str.endswith", "str.isdigit", ".startswith", ".endswith", ".isdigit", ".any", ".all",
                   ".isna", ".notna", ".isnull", ".empty", "contains")

    def _number_truth(self, av, node, fr):
        """a value that is evidently a number of the data (an element or a reduction of a column / an array, arithmetic on such, a
        position) is used as a truth value: 0 is a legitimate number, and it is the one that takes the other branch"""
        if not isinstance(av, (Val, Unk)) or getattr(av, "given", False) or getattr(av, "list_of_positions", False):
            return
        t = to_term(av)
        # what is tested, with negations stripped
        while t.op == "not":
            t = t.args[0]
        if t.op in self._BOOLISH:
            return
        head = str(t.args[0]) if t.op == "call" and t.args else ""
        if t.op == "call" and (head in self._BOOL_CALLS or head.startswith(("is", "has", "str.", "re."))):
            if not (head in (".any", "reduce:any", "numpy.any") and getattr(av, "any_of_positions", False)):
                return
        # a list / array of positions as a whole is tested for emptiness (a Python list) -- only a single position is a number here
        one_position = getattr(av, "pos_of", None) is not None and t.op == "call" and head in ("elem", "each", "item", "rowelem", "at")
        numeric = self._evidently_numeric(t) or (t.op == "call" and head in (".any", "reduce:any", "numpy.any")) \
            or getattr(av, "scalar_pos", False) or one_position
        if numeric:
            self.record("typing", "number-truth", [av], {}, node)

    numeric_syms = ()  # symbols the obligation declares to be numbers / arrays of numbers (see harness.numbers)

    def _evidently_numeric(self, t, depth=0):
        """is the term a number of the data by construction?  arithmetic, a column of a particle table, a position, or an element /
        reduction of such; an element of an array of unknown content (it may be a mask) is not"""
        if depth > 12:
            return False
        if t.op in ("add", "sub", "mul", "div", "mod", "floordiv", "neg", "pow"):
            return True
        if t.op in ("int", "float", "abs", "round") and t.args and hasattr(t.args[0], "op"):
            return self._evidently_numeric(t.args[0], depth + 1)
        if t.op == "sym":
            n = str(t.args[0])
            return n in self.numeric_syms or n.startswith("a:") or n.startswith("b:")
        if t.op != "call" or not t.args:
            return False
        head = str(t.args[0])
        if head in ("col", "enum_index", "where", "argsort", "len", "nrows", "reduce:argmax", "reduce:argmin"):
            return head not in ("len", "nrows")
        if head in ("elem", "rowelem", "each", "item", "at", "column", "sel", "getitem", "reduce:max", "reduce:min", "reduce:sum", "reduce:mean", "unique",
                    "numpy.asarray", "numpy.array", "vec") and len(t.args) > 1 and hasattr(t.args[1], "op"):
            return self._evidently_numeric(t.args[1], depth + 1)
        return False

    def exec_if(self, st, fr):
        cond = self.eval(st.test, fr)
        t = self.truth(cond, st.test, fr)
        if t is True:
            return self.exec_block(st.body, fr)
        if t is False:
            return self.exec_block(st.orelse, fr)
        cterm = to_term(cond)
        self.record("branch", "if", [cond], {}, st.test)
        env0 = fr.env
        n0 = len(self.guards)
        env_a, memo_a = fork_env(env0)
        env_b, memo_b = fork_env(env0)
        fr.env = env_a
        self.guards.append(cterm)
        fa = self.exec_block(st.body, fr)
        del self.guards[n0:]
        env_a = fr.env
        fr.env = env_b
        self.guards.append(mk("not", cterm))
        fb = self.exec_block(st.orelse, fr)
        del self.guards[n0:]
        env_b = fr.env

        def returned_under(c):
            g = None
            for x in self.guards[fr.base_guards:] + [c]:
                g = x if g is None else mk("and", g, x)
            fr.ret_guards.append(g)

        A, B = (env_a, memo_a), (env_b, memo_b)
        dead_a = fa in (Flow.RETURN, Flow.RAISE)
        dead_b = fb in (Flow.RETURN, Flow.RAISE)
        if dead_a and dead_b:
            if fa == Flow.RETURN and fb == Flow.RETURN:
                fr.env = self.restore(cterm, *A, *B)
                return Flow.RETURN
            if fa == Flow.RETURN:
                fr.env = self.restore(cterm, *A, *A)
                return Flow.RETURN
            if fb == Flow.RETURN:
                fr.env = self.restore(cterm, *B, *B)
                return Flow.RETURN
            fr.env = self.restore(cterm, *A, *A)
            return Flow.RAISE
        if dead_a:
            if fa == Flow.RETURN:
                # the effects of the returning branch stay visible under its guard; everything executed from here on is
                # guarded by its negation (Interp.store_guard)
                fr.env = self.restore(cterm, *A, *B)
                returned_under(cterm)
            else:
                fr.env = self.restore(cterm, *B, *B)
            return fb
        if dead_b:
            if fb == Flow.RETURN:
                fr.env = self.restore(cterm, *A, *B)
                returned_under(mk("not", cterm))
            else:
                fr.env = self.restore(cterm, *A, *A)
            return fa
        if fa != fb:
            # break/continue on one side only: keep the fall-through side; the rest of the loop body runs under the
            # negated condition
            if fa == Flow.NORMAL:
                fr.env = self.restore(cterm, *A, *A)
                self.guards.append(cterm)
            else:
                fr.env = self.restore(cterm, *B, *B)
                self.guards.append(mk("not", cterm))
            return Flow.NORMAL
        fr.env = self.restore(cterm, *A, *B)
        return fa

    def store_guard(self):
        """condition under which code executed now is live, given earlier guarded returns (None = always)"""
        g = None
        for fr in self.stack:
            for rg in fr.ret_guards:
                x = mk("not", rg)
                g = x if g is None else mk("and", g, x)
        return g

    def restore(self, cterm, ea, ma, eb, mb):
        """merge the two branch environments back into the *original* mutable objects (identity is preserved, so
        aliases held by callers keep seeing the merged state)"""
        inv_a = {id(c): o for o, c in ma.values()}
        inv_b = {id(c): o for o, c in mb.values()}
        done = {}

        def merge(oa, ob):
            o1, o2 = inv_a.get(id(oa)), inv_b.get(id(ob))
            if o1 is not None and o1 is o2:
                if id(o1) not in done:
                    done[id(o1)] = True
                    self._merge_into(o1, oa, ob, cterm, merge)
                return o1
            if oa is ob:
                return oa
            return self.join(cterm, oa, ob)

        out = {}
        for k in list(dict.fromkeys(list(ea) + list(eb))):
            if k in ea and k in eb:
                out[k] = merge(ea[k], eb[k])
            elif k in ea:
                out[k] = merge(ea[k], ea[k]) if ea is eb else ea[k]
            else:
                out[k] = eb[k]
        return out

    def _merge_into(self, orig, a, b, cterm, merge):
        if isinstance(orig, Obj) and isinstance(a, Obj) and isinstance(b, Obj):
            attrs = {}
            for k in list(dict.fromkeys(list(a.attrs) + list(b.attrs))):
                if k in a.attrs and k in b.attrs:
                    attrs[k] = merge(a.attrs[k], b.attrs[k])
                else:
                    attrs[k] = a.attrs.get(k, b.attrs.get(k))
            orig.attrs = attrs
            return
        if isinstance(orig, Seq) and isinstance(a, Seq) and isinstance(b, Seq):
            if len(a.items) == len(b.items):
                orig.items = [merge(x, y) for x, y in zip(a.items, b.items)]
            else:
                longer = a if len(a.items) >= len(b.items) else b
                orig.items = list(longer.items)
                orig.maybe_partial = True
            for k, v in list(a.__dict__.items()) + list(b.__dict__.items()):
                if k != "items":
                    orig.__dict__.setdefault(k, v)
            return
        if isinstance(orig, DictV) and isinstance(a, DictV) and isinstance(b, DictV):
            items = {}
            for k in list(dict.fromkeys(list(a.items) + list(b.items))):
                if k in a.items and k in b.items:
                    items[k] = merge(a.items[k], b.items[k])
                else:
                    items[k] = a.items.get(k, b.items.get(k))
            orig.items = items
            return
        j = a if a is b else self.join(cterm, a, b)
        if type(j) is type(orig):
            orig.__dict__.update(j.__dict__)

    # ---- loops
    def iter_items(self, it):
        """list of abstract items when the iterable is statically enumerable, else None"""
        if isinstance(it, Seq):
            return list(it.items)
        if isinstance(it, DictV):
            return [K(k) for k in it.items]
        if isinstance(it, Arr) and it.ndim == 1:
            return [Val(c) for c in it.cols]
        if isinstance(it, Frame) and it.row and it.order is not None:
            return [Val(it.cols[c]) for c in it.order]  # iterating a row yields its values
        if isinstance(it, Val) and getattr(it, "arange", None) is not None:
            try:
                a, b, c = (pyval(x) for x in it.arange)
                r = range(int(a), int(b), int(c))
                if len(r) <= MAX_UNROLL:
                    return [K(i) for i in r]
            except (NotConst, TypeError, ValueError):
                pass
        if isinstance(it, Val):
            try:
                v = pyval(it)
                if isinstance(v, (list, tuple, str)):
                    return [K(x) for x in v]
            except NotConst:
                pass
        return None

    def exec_for(self, st, fr):
        it = self.eval(st.iter, fr)
        items = self.iter_items(it)
        if items is not None and len(items) <= MAX_UNROLL:
            for item in items:
                self.assign(st.target, item, fr, st)
                g0 = len(self.guards)
                flow = self.exec_block(st.body, fr)
                del self.guards[g0:]
                if flow == Flow.BREAK:
                    break
                if flow in (Flow.RETURN, Flow.RAISE):
                    return flow
            else:
                if st.orelse:
                    return self.exec_block(st.orelse, fr)
            return Flow.NORMAL
        # generic iteration
        elem = self.lib.generic_element(self, it, st)
        self.record("loop", "for", [it], {}, st, {"elem": elem})
        assigned = assigned_names(st.body) | target_names(st.target)
        acc = append_only(st.body, assigned, fr.module)
        for n in acc:
            if isinstance(fr.env.get(n), Seq):
                fr.env[n].accumulated = True  # a list only appended to: it holds the generic element(s) afterwards
        assigned = assigned - {n for n in acc if isinstance(fr.env.get(n), Seq)}
        filled = store_only(st.body, assigned, fr.module)
        assigned = assigned - {n for n in filled if getattr(fr.env.get(n), "alloc", None) is not None
                               or getattr(fr.env.get(n), "filled_in_loop", False)}
        self.havoc(fr, assigned, st, "loop")
        self.assign(st.target, elem, fr, st)
        self.loop_depth += 1
        g0 = len(self.guards)
        self.guards.append(call("in_loop", const(getattr(st, "lineno", 0))))
        nret = len(fr.returns)
        try:
            self.exec_block(st.body, fr)
        finally:
            del self.guards[g0:]
            self.loop_depth -= 1
        self.havoc(fr, assigned - target_names(st.target), st, "after-loop", keep_frames=True)
        # after the loop the target holds the *last* element only
        for n in target_names(st.target):
            cur = fr.env.get(n)
            if cur is not None:
                fr.env[n] = Unk(call("last", to_term(cur)), why="loop variable after the loop")
        if st.orelse:
            self.exec_block(st.orelse, fr)
        return Flow.NORMAL

    def exec_while(self, st, fr):
        assigned = assigned_names(st.body)
        self.havoc(fr, assigned, st, "loop")
        cond = self.eval(st.test, fr)
        self.record("loop", "while", [cond], {}, st)
        self.loop_depth += 1
        g0 = len(self.guards)
        self.guards.append(call("in_loop", const(getattr(st, "lineno", 0))))
        try:
            self.exec_block(st.body, fr)
        finally:
            del self.guards[g0:]
            self.loop_depth -= 1
        self.havoc(fr, assigned, st, "after-loop", keep_frames=True)
        return Flow.NORMAL

    def havoc(self, fr, names, node, why, keep_frames=False):
        for n in names:
            cur = fr.env.get(n)
            if cur is None:
                continue
            if keep_frames and isinstance(cur, (Frame, Obj, Seq, DictV, Func, ClassRef, Ref)):
                if isinstance(cur, Frame):
                    cur.notes.append(("loop-modified", getattr(node, "lineno", 0)))
                continue
            if isinstance(cur, (Func, ClassRef, Ref)):
                continue
            if isinstance(cur, Frame):
                f = cur.clone()
                f.notes.append(("loop-carried", getattr(node, "lineno", 0)))
                f.space = Space(f"{n}@loop", parent=cur.space, how="loop")
                f.cols = {k: call(f"loopvar:{n}.{k}", const(getattr(node, "lineno", 0))) if k in () else v
                          for k, v in cur.cols.items()}
                fr.env[n] = f
                continue
            if isinstance(cur, Obj):
                continue
            fr.env[n] = Unk(call(f"loopvar:{n}", const(getattr(node, "lineno", 0))), space=getattr(cur, "space", None),
                            why=why)
            fr.env[n].before = cur

    # ------------------------------------------------------------------ joins
    def join(self, cterm, a, b):
        if a is b:
            return a
        from . import imgdom as _img
        # `if table has no rows: return []  else: return <one value per row>`: for a table without rows the per-row value is empty as
        # well, so the merged result is the per-row value (every statement about its rows is vacuous when there are none)
        for empty_, other_, then_side in ((a, b, True), (b, a, False)):
            if isinstance(empty_, Seq) and not empty_.items and isinstance(other_, (Rot, Arr, Val)) and not isinstance(other_, Unk) \
                    and getattr(other_, "space", None) is not None and self._emptiness_of(cterm, other_.space) is then_side:
                return other_
        if isinstance(a, _img.Filtered) or isinstance(b, _img.Filtered):
            j_ = _img.join_filtered(cterm, a, b)
            if j_ is not None:
                return j_
        if isinstance(a, Val) and isinstance(b, Val):
            if a.term == b.term:
                e_ = self._empty_side(cterm, a, b)
                if e_ is not None:
                    return e_
                return a
            j_ = Val(mk("ite", cterm, a.term, b.term), space=a.space or b.space, pos_of=a.pos_of or b.pos_of)
            ax_a, ax_b = getattr(a, "axes", None), getattr(b, "axes", None)
            if ax_a is not None and ax_b is not None and len(ax_a) == len(ax_b) and all(
                    (x is None and y is None) or (x is not None and y is not None and x.sym == y.sym and x.n == y.n and x.off == y.off)
                    for x, y in zip(ax_a, ax_b)):
                j_.axes = list(ax_a)  # two index functions over the same grid: still an index function over that grid
            elif (ax_a is None) != (ax_b is None):
                # an index function joined with a constant array (np.ones(shape) on an early-return path): the constant is the same at every
                # index, so the join is an index function over the other side's grid
                const_side, grid_side = (a, ax_b) if ax_a is None else (b, ax_a)
                if getattr(const_side, "alloc", None) in ("ones", "zeros", "full") and tm.is_const(const_side.term) and all(x is not None for x in grid_side):
                    j_.axes = list(grid_side)
            return j_
        if isinstance(a, Arr) and isinstance(b, Arr) and len(a.cols) == len(b.cols):
            if a.ndim == b.ndim and all(x == y for x, y in zip(a.cols, b.cols)) and getattr(a, "notes", None) == getattr(b, "notes", None):
                return a  # the same array on both paths (a branch that did not touch it): its history stays with it
            return Arr([mk("ite", cterm, x, y) for x, y in zip(a.cols, b.cols)], a.ndim, a.space or b.space)
        if isinstance(a, Rot) and isinstance(b, Rot):
            return Rot(mk("ite", cterm, a.term, b.term))
        if isinstance(a, Frame) and isinstance(b, Frame):
            f = a.clone()
            names = list(dict.fromkeys(list(a.cols) + list(b.cols)))
            f.cols = {}
            for n in names:
                if n in a.cols and n in b.cols:
                    f.cols[n] = mk("ite", cterm, a.cols[n], b.cols[n])
                elif n in a.cols:
                    f.cols[n] = mk("ite", cterm, a.cols[n], call("absent", const(n)))
                else:
                    f.cols[n] = mk("ite", cterm, call("absent", const(n)), b.cols[n])
            if a.order != b.order:
                f.order = a.order if b.order is None else b.order if a.order is None else None
            f.notes = list(a.notes) + [n for n in b.notes if n not in a.notes]
            f.written = a.written | b.written
            f.filters = list(a.filters) + [x for x in b.filters if x not in a.filters]
            if a.space is not b.space:
                f.space = Space("join", parent=None, how="join")
                f.space.alts = (a.space, b.space)
                f.space.cond = cterm
            return f
        if isinstance(a, Obj) and isinstance(b, Obj) and a.cls == b.cls:
            o = Obj(a.cls, {})
            for k in set(a.attrs) | set(b.attrs):
                if k in a.attrs and k in b.attrs:
                    o.attrs[k] = self.join(cterm, a.attrs[k], b.attrs[k])
                else:
                    o.attrs[k] = a.attrs.get(k, b.attrs.get(k))
            return o
        if isinstance(a, Seq) and isinstance(b, Seq) and len(a.items) == len(b.items):
            return Seq([self.join(cterm, x, y) for x, y in zip(a.items, b.items)], a.kind)
        if isinstance(a, (Func, ClassRef, Ref)) and type(a) is type(b) and to_term(a) == to_term(b):
            return a
        ta, tb = to_term(a), to_term(b)
        if ta == tb:
            return a
        return Unk(mk("ite", cterm, ta, tb), space=getattr(a, "space", None) or getattr(b, "space", None), why="join")

    @staticmethod
    def _emptiness_of(cterm, space):
        """cterm as a test "the array / table `space` derives from has no rows": True (holds exactly when empty), False (holds exactly
        when not empty), None (something else)"""
        c, neg = cterm, False
        while c.op == "not":
            c, neg = c.args[0], not neg
        if c.op not in ("eq", "ne", "lt", "gt", "le", "ge") or len(c.args) != 2:
            return None
        l, r = c.args
        op = c.op
        if op in ("gt", "ge"):
            l, r, op = r, l, {"gt": "lt", "ge": "le"}[op]

        def count_of(t):
            return tm.cval(t.args[1]) if t.op == "call" and t.args and t.args[0] == "nrows" and len(t.args) >= 2 else None
        sid, when_empty = None, None
        if op == "eq" and count_of(l) is not None and tm.cval(r) == 0:
            sid, when_empty = count_of(l), True
        elif op == "eq" and count_of(r) is not None and tm.cval(l) == 0:
            sid, when_empty = count_of(r), True
        elif op == "ne" and count_of(l) is not None and tm.cval(r) == 0:
            sid, when_empty = count_of(l), False
        elif op == "lt" and count_of(r) is not None and tm.cval(l) == 0:
            sid, when_empty = count_of(r), False
        elif op == "le" and count_of(r) is not None and tm.cval(l) == 1:
            sid, when_empty = count_of(r), False
        if sid is None:
            return None
        if neg:
            when_empty = not when_empty
        sp = space
        while sp is not None:
            if sp.id == sid:
                return when_empty
            sp = sp.parent
        return None

    @staticmethod
    def _empty_side(cterm, a, b):
        """two selections of the same element-wise value, one of them taken only when an array it is derived from has no rows: that side
        contributes no rows at all, so the merged value is the other selection (`if idx.shape[0] == 0: sel = idx  else: sel = idx[mask]`)"""
        sa_, sb_ = getattr(a, "space", None), getattr(b, "space", None)
        if sa_ is None or sb_ is None or sa_ is sb_:
            return None
        c, neg = cterm, False
        while c.op == "not":
            c, neg = c.args[0], not neg
        if c.op not in ("eq", "ne", "lt", "gt", "le", "ge") or len(c.args) != 2:
            return None
        l, r = c.args
        if c.op in ("gt", "ge"):
            l, r, op = r, l, {"gt": "lt", "ge": "le"}[c.op]
        else:
            op = c.op
        def count_of(t):
            return tm.cval(t.args[1]) if t.op == "call" and t.args and t.args[0] == "nrows" and len(t.args) >= 2 else None
        # forms: nrows == 0, 0 == nrows (then-branch empty) ; nrows != 0, 0 < nrows, 1 <= nrows (else-branch empty)
        sid, then_empty = None, None
        if op == "eq" and count_of(l) is not None and tm.cval(r) == 0:
            sid, then_empty = count_of(l), True
        elif op == "eq" and count_of(r) is not None and tm.cval(l) == 0:
            sid, then_empty = count_of(r), True
        elif op == "ne" and count_of(l) is not None and tm.cval(r) == 0:
            sid, then_empty = count_of(l), False
        elif op == "lt" and count_of(r) is not None and tm.cval(l) == 0:
            sid, then_empty = count_of(r), False
        elif op == "le" and count_of(r) is not None and tm.cval(l) == 1:
            sid, then_empty = count_of(r), False
        if sid is None:
            return None
        if neg:
            then_empty = not then_empty
        empty, other = (a, b) if then_empty else (b, a)
        # the empty side must be (derived from) the counted array, the other side as well: both are selections of it
        def derived(sp):
            while sp is not None:
                if sp.id == sid:
                    return True
                sp = sp.parent
            return False
        if derived(getattr(empty, "space", None)) and derived(getattr(other, "space", None)):
            return other
        return None

    def join_env(self, cterm, ea, eb):
        out = {}
        for k in list(dict.fromkeys(list(ea) + list(eb))):
            if k in ea and k in eb:
                out[k] = self.join(cterm, ea[k], eb[k])
            elif k in ea:
                out[k] = ea[k]
            else:
                out[k] = eb[k]
        return out

    # ------------------------------------------------------------------ assignment
    def assign(self, target, value, fr, st, aug=False):
        if isinstance(target, ast.Name):
            fr.env[target.id] = value
            return
        if isinstance(target, (ast.Tuple, ast.List)):
            items = self.iter_items(value)
            if items is None and isinstance(value, Arr) and value.ndim == 2:
                items = [Val(c, space=value.space) for c in value.cols]
            if items is None:
                base = to_term(value)
                items = [Unk(call("unpack", base, const(i)), space=getattr(value, "space", None))
                         for i in range(len(target.elts))]
            if len(items) != len(target.elts):
                raise Unsupported("tuple unpacking length mismatch", st)
            for t, v in zip(target.elts, items):
                self.assign(t, v, fr, st)
            return
        if isinstance(target, ast.Attribute):
            obj = self.eval(target.value, fr)
            if isinstance(obj, Obj):
                g = self.store_guard()
                if g is not None and target.attr in obj.attrs:
                    value = self.join(g, value, obj.attrs[target.attr])
                obj.attrs[target.attr] = value
                self.record("setattr", target.attr, [obj, value], {}, st)
                return
            if isinstance(obj, Frame) and target.attr == "columns":
                self.lib.frame_set_columns(self, obj, value, st)
                return
            self.record("setattr", target.attr, [obj, value], {}, st)
            return
        if isinstance(target, ast.Subscript):
            obj = self.eval(target.value, fr)
            idx = self.eval_index(target.slice, fr)
            self.lib.setitem(self, obj, idx, value, st, fr)
            return
        if isinstance(target, ast.Starred):
            self.assign(target.value, value, fr, st)
            return
        raise Unsupported(f"assignment target {type(target).__name__}", st)

    # ------------------------------------------------------------------ expressions
    def eval_index(self, node, fr):
        if isinstance(node, ast.Tuple):
            return Seq([self.eval_index(e, fr) for e in node.elts], "tuple")
        if isinstance(node, ast.Slice):
            return SliceV(self.eval(node.lower, fr) if node.lower else None,
                          self.eval(node.upper, fr) if node.upper else None,
                          self.eval(node.step, fr) if node.step else None)
        return self.eval(node, fr)

    def eval(self, node, fr):
        meth = getattr(self, "e_" + type(node).__name__, None)
        if meth is None:
            raise Unsupported(f"expression {type(node).__name__}", node)
        return meth(node, fr)

    def e_Constant(self, node, fr):
        return K(node.value)

    def e_Name(self, node, fr):
        n = node.id
        if n in fr.env:
            return fr.env[n]
        m = fr.module
        if n in m.defs:
            d = m.defs[n]
            q = f"{m.name}.{n}"
            if isinstance(d, ast.ClassDef):
                return ClassRef(q)
            return Func(q, m, d)
        if n in m.aliases:
            dotted = m.aliases[n]
            q = self.prog.repo_qual(dotted)
            if q:
                mm, d = self.prog.lookup(q)
                return ClassRef(q) if isinstance(d, ast.ClassDef) else Func(q, mm, d)
            return Ref(dotted)
        # module-level constant?
        for stn in m.tree.body:
            if isinstance(stn, ast.Assign) and any(isinstance(t, ast.Name) and t.id == n for t in stn.targets):
                try:
                    return self.eval(stn.value, Frame_(m.name, m, {}))
                except Unsupported:
                    break
        if n in ("True", "False", "None"):
            return K({"True": True, "False": False, "None": None}[n])
        return Ref("builtins." + n)

    def e_Attribute(self, node, fr):
        base = self.eval(node.value, fr)
        return self.lib.getattr_(self, base, node.attr, node, fr)

    def e_Subscript(self, node, fr):
        base = self.eval(node.value, fr)
        idx = self.eval_index(node.slice, fr)
        return self.lib.getitem(self, base, idx, node, fr)

    def e_Tuple(self, node, fr):
        return Seq([self.eval(e, fr) for e in node.elts], "tuple")

    def e_List(self, node, fr):
        out = []
        for e in node.elts:
            if isinstance(e, ast.Starred):
                v = self.eval(e.value, fr)
                items = self.iter_items(v)
                if items is None:
                    raise Unsupported("starred of unknown iterable", node)
                out.extend(items)
            else:
                out.append(self.eval(e, fr))
        r_ = Seq(out, "list")
        r_.born = (fr.fn, getattr(node, "lineno", 0), getattr(node, "col_offset", 0))  # which list literal this list started as (kept by copies)
        return r_

    def e_Set(self, node, fr):
        return Seq([self.eval(e, fr) for e in node.elts], "set")

    def e_Dict(self, node, fr):
        d = {}
        for k, v in zip(node.keys, node.values):
            if k is None:
                vv = self.eval(v, fr)
                if isinstance(vv, DictV):
                    d.update(vv.items)
                    continue
                raise Unsupported("dict unpacking of unknown", node)
            kv = self.eval(k, fr)
            try:
                key = pyval(kv)
            except NotConst:
                raise Unsupported("non-constant dict key", node)
            d[key] = self.eval(v, fr)
        return DictV(d)

    def e_JoinedStr(self, node, fr):
        parts = []
        for v in node.values:
            if isinstance(v, ast.Constant):
                parts.append(const(v.value))
            else:
                parts.append(to_term(self.e_FormattedValue(v, fr)))
        if all(tm.is_const(p) for p in parts):
            return K("".join(str(p.args[0]) for p in parts))
        r = Val(T("str", *parts))
        r.fstring = node
        return r

    def e_FormattedValue(self, node, fr):
        v = self.eval(node.value, fr)
        if node.format_spec is None and node.conversion == -1:
            if isinstance(v, Val):
                return v
            return Val(to_term(v))
        spec = to_term(self.eval(node.format_spec, fr)) if node.format_spec is not None else const("")
        return Val(T("fmt", to_term(v), spec, const(node.conversion)))

    def e_UnaryOp(self, node, fr):
        v = self.eval(node.operand, fr)
        if isinstance(node.op, ast.Not):
            self._number_truth(v, node.operand, fr)  # `not x` uses x as a truth value
        return self.lib.unop(self, node.op, v, node)

    def e_BinOp(self, node, fr):
        a = self.eval(node.left, fr)
        b = self.eval(node.right, fr)
        return self.binop(node.op, a, b, node)

    def binop(self, op, a, b, node):
        return self.lib.binop(self, op, a, b, node)

    def e_BoolOp(self, node, fr):
        opn = "and" if isinstance(node.op, ast.And) else "or"
        out = None
        n = len(node.values)
        for i, vn in enumerate(node.values):
            v = self.eval(vn, fr)
            last = i == n - 1
            if not last:
                self._number_truth(v, vn, fr)  # `x and ...` / `x or default`: x is used as a truth value
            k = self.truth(v, vn, fr) if (is_pyconst(v) or isinstance(v, (Seq, DictV))) else None
            if k is not None:
                decisive = (opn == "and" and k is False) or (opn == "or" and k is True)
                if not decisive and not last:
                    continue
                if out is None:
                    return v
                out = mk(opn, out, to_term(v))
                if decisive:
                    break
                continue
            t = to_term(v)
            out = t if out is None else mk(opn, out, t)
        return Val(out if out is not None else const(opn == "and"))

    def e_Compare(self, node, fr):
        left = self.eval(node.left, fr)
        res = None
        for op, rn in zip(node.ops, node.comparators):
            right = self.eval(rn, fr)
            r = self.lib.compare(self, op, left, right, node)
            res = r if res is None else self.lib.logical(self, "and", res, r, node)
            left = right
        return res

    def e_IfExp(self, node, fr):
        c = self.eval(node.test, fr)
        t = self.truth(c, node.test, fr)
        if t is True:
            return self.eval(node.body, fr)
        if t is False:
            return self.eval(node.orelse, fr)
        a = self.eval(node.body, fr)
        b = self.eval(node.orelse, fr)
        return self.join(to_term(c), a, b)

    def e_Lambda(self, node, fr):
        fd = ast.FunctionDef(name="<lambda>", args=node.args, body=[ast.Return(value=node.body)], decorator_list=[],
                             returns=None, type_comment=None, type_params=[])
        ast.copy_location(fd, node)
        ast.fix_missing_locations(fd)
        return Func(fr.fn + ".<lambda>", fr.module, fd, closure=fr.env)

    def _comp(self, node, fr, elt_fn):
        sub = Frame_(fr.fn, fr.module, dict(fr.env), fr.owner_cls)
        return self._comp_level(node, list(node.generators), sub, elt_fn)

    def _comp_level(self, node, gens, sub, elt_fn):
        """one `for` clause of a comprehension (the later clauses nest inside it): -> (list of elements | None, generic element | None, iterable)"""
        gen = gens[0]
        it = self.eval(gen.iter, sub)
        items = self.iter_items(it)
        if items is None:
            elem = self.lib.generic_element(self, it, node)
            self.assign(gen.target, elem, sub, node)
            self.loop_depth += 1
            try:
                for cnd in gen.ifs:
                    # a filter over an unknown number of elements: evaluated for what it tests (typed rules); the result is a selection
                    self.truth(self.eval(cnd, sub), cnd, sub)
                    self.record("filter", "comprehension", [it], {}, cnd)
                if len(gens) > 1:
                    out2, v, _ = self._comp_level(node, gens[1:], sub, elt_fn)
                    if out2 is not None:
                        raise Unsupported("comprehension: enumerated clause nested in a clause over an unknown number of elements", node)
                else:
                    v = elt_fn(sub)
            finally:
                self.loop_depth -= 1
            return None, v, it
        out = []
        for item in items:
            self.assign(gen.target, item, sub, node)
            ok = True
            for cnd in gen.ifs:
                t = self.truth(self.eval(cnd, sub), cnd, sub)
                if t is None:
                    raise Unsupported("comprehension filter on unknown value", node)
                ok = ok and t
            if not ok:
                continue
            if len(gens) > 1:
                out2, v2, _ = self._comp_level(node, gens[1:], sub, elt_fn)
                if out2 is None:
                    raise Unsupported("comprehension: clause over an unknown number of elements nested in an enumerated clause", node)
                out.extend(out2)
            else:
                out.append(elt_fn(sub))
        return out, None, it

    def e_ListComp(self, node, fr):
        out, gen, it = self._comp(node, fr, lambda sub: self.eval(node.elt, sub))
        if out is None:
            sp_ = getattr(it, "space", None)
            filtered = any(g.ifs for g in node.generators)
            if filtered:
                # a selection of the elements: fewer rows, other positions
                sp_ = Space("comprehension filter", parent=sp_, how="filter") if sp_ is not None else None
            u = Unk(call("listcomp_if" if filtered else "listcomp", to_term(gen), to_term(it)), space=sp_, why="comprehension")
            u.elem = gen
            u.filtered = filtered
            return u
        return Seq(out, "list")

    def e_GeneratorExp(self, node, fr):
        return self.e_ListComp(node, fr)

    def e_SetComp(self, node, fr):
        return self.e_ListComp(node, fr)

    def e_DictComp(self, node, fr):
        out, gen, it = self._comp(node, fr, lambda sub: (self.eval(node.key, sub), self.eval(node.value, sub)))
        if out is None:
            return Unk(call("dictcomp", to_term(gen[0]), to_term(gen[1]), to_term(it)), why="comprehension")
        d = {}
        for k, v in out:
            if not is_pyconst(k):
                return Unk(call("dictcomp", to_term(k), to_term(v), to_term(it)), why="comprehension with non-literal keys")
            d[pyval(k)] = v
        return DictV(d)

    def e_Starred(self, node, fr):
        return self.eval(node.value, fr)

    def e_NamedExpr(self, node, fr):
        v = self.eval(node.value, fr)
        self.assign(node.target, v, fr, node)
        return v

    def e_Call(self, node, fr):
        fn_ = node.func
        if isinstance(fn_, ast.Attribute) and isinstance(fn_.value, ast.Call) and isinstance(fn_.value.func, ast.Name) \
                and fn_.value.func.id == "super" and not fn_.value.args:
            # super().method(...): the method of the next class after the one this function is defined in, on the same object
            defcls = self.prog.enclosing_class(fr.fn)
            me = fr.env.get("self", fr.env.get("cls"))
            if defcls is not None and isinstance(me, Obj):
                for c_ in self.prog.mro(defcls)[1:]:
                    q_ = f"{c_}.{fn_.attr}"
                    if self.prog.has(q_):
                        m_, n_ = self.prog.lookup(q_)
                        args_ = [self.eval(a, fr) for a in node.args]
                        kw_ = {k.arg: self.eval(k.value, fr) for k in node.keywords if k.arg is not None}
                        return self.call_func(Func(q_, m_, n_, bound=me), args_, kw_, node)
                return K(None)  # object.__init__ and the like
        f = self.eval(node.func, fr)
        args = []
        for a in node.args:
            if isinstance(a, ast.Starred):
                v = self.eval(a.value, fr)
                items = self.iter_items(v)
                if items is None:
                    raise Unsupported("*args of unknown iterable", node)
                args.extend(items)
            else:
                args.append(self.eval(a, fr))
        kwargs = {}
        for k in node.keywords:
            if k.arg is None:
                v = self.eval(k.value, fr)
                if isinstance(v, DictV):
                    kwargs.update(v.items)
                    continue
                raise Unsupported("**kwargs of unknown mapping", node)
            kwargs[k.arg] = self.eval(k.value, fr)
        out_kw = [k for k in node.keywords if k.arg == "out" and isinstance(k.value, ast.Name)]
        if out_kw and isinstance(f, Ref) and f.name.startswith("numpy."):
            # ufunc(..., out=x): the result is stored in x (an in-place update of x)
            cur = kwargs.pop("out")
            res = self.call(f, args, kwargs, node, fr)
            self.record("inplace", "out=", [cur], {}, node, {"fresh": getattr(cur, "fresh", None)})
            g_ = self.store_guard()
            fr.env[out_kw[0].value.id] = res if g_ is None else self.join(g_, res, cur)
            fr.inplace_names.add(out_kw[0].value.id)
            return res
        out_sub = [k for k in node.keywords if k.arg == "out" and isinstance(k.value, ast.Subscript) and isinstance(k.value.value, ast.Name)]
        if out_sub and isinstance(f, Ref) and f.name.startswith("numpy."):
            # ufunc(..., out=x[...]): the result is stored into that part of x
            kwargs.pop("out")
            res = self.call(f, args, kwargs, node, fr)
            self.record("inplace", "out=", [fr.env.get(out_sub[0].value.value.id)], {}, node, {"fresh": getattr(fr.env.get(out_sub[0].value.value.id), "fresh", None)})
            self.assign(out_sub[0].value, res, fr, node)
            fr.inplace_names.add(out_sub[0].value.value.id)
            return res
        return self.call(f, args, kwargs, node, fr)

    def call(self, f, args, kwargs, node, fr):
        n0 = len(self.events)
        res = self._call(f, args, kwargs, node, fr)
        for ev in self.events[n0:]:
            if ev.kind == "call" and ev.node is node:
                ev.extra.setdefault("ret", res)  # the value the call produced (rules identify variables by role)
                break
        return res

    def _ignored_options(self, name, recv, kw, res, node, n0):
        """keyword options of a library call that the model of the call never looked at: recorded (the obligations decide what an
        un-interpreted option means); an opaque result carries every argument in its term and counts as interpreted"""
        left = [k for k in dict.keys(kw) if k not in kw.seen]
        if not left:
            return
        from .values import Unk as _U
        if isinstance(res, _U) and all(tm.contains(to_term(res), lambda n, v=to_term(dict.__getitem__(kw, k)): n == v) for k in left):
            return
        for k in left:
            v_ = dict.__getitem__(kw, k)
            if recv is None and is_pyconst(v_) and _library_default(name, k, pyval(v_)):
                continue  # the option is spelled out with the value the library uses anyway
            self.record("ignored-option", name, [v_], {}, node, {"option": k, "receiver": type(recv).__name__ if recv is not None else None})


    def _call(self, f, args, kwargs, node, fr):
        if isinstance(f, Func):
            name = "cryocat." + f.qual
            ev_ = self.record("call", name, args, dict(kwargs), node)
            ev_.extra["bound"] = self.signature_view(f, args, kwargs)
            if ev_.extra["bound"] is not None:
                # rules read the call through the callee's signature (position or name, defaults filled in), however it is spelled
                ev_.extra["as_written"] = (ev_.args, ev_.kwargs)
                ev_.args, ev_.kwargs = list(ev_.extra["bound"][0]), dict(ev_.extra["bound"][1])
            if name in self.summaries:
                # a summary reads the call as its callee's signature spells it: every parameter by position (defaults filled in) and by name
                b_ = ev_.extra["bound"]
                if b_ is not None:
                    args, kwargs = list(b_[0]), dict(b_[1])
                return self.summaries[name](self, args, kwargs, node, fr)
            if f.qual in self.no_inline:
                return Unk(call(name, *[to_term(a) for a in args], *[to_term(v) for v in kwargs.values()]),
                           why="not inlined")
            return self.call_func(f, args, kwargs, node)
        if isinstance(f, ClassRef):
            name = "cryocat." + f.qual
            self.record("call", name, args, dict(kwargs), node)
            if name in self.summaries:
                return self.summaries[name](self, args, kwargs, node, fr)
            return self.lib.construct(self, f, args, kwargs, node, fr)
        if isinstance(f, Method):
            kw_ = KW(kwargs)
            n0_ = len(self.events)
            res_ = self.lib.call_method(self, f.recv, f.name, args, kw_, node, fr)
            self._ignored_options("method:" + f.name, f.recv, kw_, res_, node, n0_)
            return res_
        if isinstance(f, Ref):
            # np.delete(arr=a, obj=i) is np.delete(a, i): leading parameters given by keyword are ALSO put at their positions (read through the
            # library's signature), so models and rules find them under either spelling
            args, moved_ = _library_positional(f.name, args, kwargs)
            self.record("call", f.name, args, dict(kwargs), node)
            if f.name in self.summaries:
                return self.summaries[f.name](self, args, kwargs, node, fr)
            kw_ = KW(kwargs)
            kw_.seen.update(moved_)
            n0_ = len(self.events)
            res_ = self.lib.call_ref(self, f.name, args, kw_, node, fr)
            self._ignored_options(f.name, None, kw_, res_, node, n0_ + 0)
            return res_
        if isinstance(f, Unk) and getattr(f, "attr_of", None) is not None:
            return self.lib.call_method(self, f.attr_of[0], f.attr_of[1], args, kwargs, node, fr)
        if isinstance(f, Unk):
            self.record("call", "?" + tm.show(f.term), args, dict(kwargs), node)
            return Unk(call("apply", f.term, *[to_term(a) for a in args]), why="call of unknown")
        raise Unsupported(f"call of {f!r}", node)


# ---------------------------------------------------------------------------------------------------- helpers
# keyword options the models of these calls leave alone on purpose (confirmed on the clean tree): the rules that care read them
# from the recorded call (sorted: C07 reads key / reverse from the event), or they do not change values (dtype=float of a table built
# from floats, the regular expression that separates the columns of a text table, the index of a one-row table, keepdims)
IGNORED_OPTIONS_OK = {("builtins.sorted", "key"), ("builtins.sorted", "reverse"), ("numpy.linalg.norm", "keepdims"), ("pandas.DataFrame", "dtype"),
                      ("pandas.DataFrame", "index"), ("pandas.read_csv", "dtype"), ("pandas.read_csv", "sep"), ("pandas.read_csv", "skiprows"),
                      # tuning parameters of the space-partitioning trees: they change how the tree is laid out, never what a query returns
                      ("sklearn.neighbors.KDTree", "leaf_size"), ("sklearn.neighbors.BallTree", "leaf_size"), ("scipy.spatial.KDTree", "leafsize"),
                      ("scipy.spatial.cKDTree", "leafsize"), ("scipy.spatial.KDTree", "balanced_tree"), ("scipy.spatial.cKDTree", "balanced_tree"),
                      ("scipy.spatial.KDTree", "compact_nodes"), ("scipy.spatial.cKDTree", "compact_nodes")}


_LIBDEF = {}
_LIBSIG = {}


def _library_positional(dotted, args, kwargs):
    """the leading parameters of an installed library function given by keyword, moved to their positions (as long as every earlier
    parameter is given): the models and the rules then read one spelling of the call.  Unknown functions / signatures: unchanged"""
    if not kwargs or not dotted.startswith(("numpy.", "scipy.", "skimage.", "pandas.", "sklearn.", "mrcfile.", "emfile.")):
        return args, ()
    if dotted not in _LIBSIG:
        _LIBSIG[dotted] = None
        try:
            import importlib
            import inspect
            parts = dotted.split(".")
            obj, rest = None, []
            for i in range(len(parts), 0, -1):
                try:
                    obj = importlib.import_module(".".join(parts[:i]))
                    rest = parts[i:]
                    break
                except ImportError:
                    continue
            for a in rest:
                obj = getattr(obj, a)
            if not inspect.isclass(obj):
                ps = list(inspect.signature(obj).parameters.values())
                lead = []
                for p_ in ps:
                    # only the required leading parameters (the data the call works on): an option with a default stays an option, so that
                    # one the model does not interpret is still noticed (OX.K)
                    if p_.kind in (inspect.Parameter.POSITIONAL_ONLY, inspect.Parameter.POSITIONAL_OR_KEYWORD) and p_.default is inspect.Parameter.empty:
                        lead.append(p_.name)
                    else:
                        break
                _LIBSIG[dotted] = lead
        except Exception:  # noqa
            _LIBSIG[dotted] = None
    lead = _LIBSIG[dotted]
    if not lead:
        return args, ()
    args, moved = list(args), []
    while len(args) < len(lead) and lead[len(args)] in kwargs:
        moved.append(lead[len(args)])
        args.append(kwargs[lead[len(args)]])
    return args, moved


def _library_default(dotted, option, value):
    """is `value` the default of keyword `option` of the installed library function `dotted` (introspected, as in E9)?"""
    key = (dotted, option)
    if key not in _LIBDEF:
        _LIBDEF[key] = ("?",)
        try:
            import importlib
            import inspect
            parts = dotted.split(".")
            obj = None
            for i in range(len(parts), 0, -1):
                try:
                    obj = importlib.import_module(".".join(parts[:i]))
                    rest = parts[i:]
                    break
                except ImportError:
                    continue
            for a in rest:
                obj = getattr(obj, a)
            p_ = inspect.signature(obj).parameters.get(option)
            if p_ is not None and p_.default is not inspect.Parameter.empty:
                _LIBDEF[key] = ("ok", p_.default)
        except Exception:  # noqa
            pass
    d = _LIBDEF[key]
    if d[0] != "ok":
        return False
    try:
        return type(d[1]) is type(value) and d[1] == value or (d[1] is None and value is None)
    except Exception:  # noqa
        return False


class KW(dict):
    """keyword arguments of a library call, remembering which of them the model of the call looked at"""

    def __init__(self, *a, **k):
        super().__init__(*a, **k)
        self.seen = set()

    def __getitem__(self, k):
        self.seen.add(k)
        return super().__getitem__(k)

    def get(self, k, d=None):
        self.seen.add(k)
        return super().get(k, d)

    def pop(self, k, *d):
        self.seen.add(k)
        return super().pop(k, *d)

    def __contains__(self, k):
        return super().__contains__(k)

    def _all(self):
        self.seen.update(super().keys())

    def items(self):
        self._all()
        return super().items()

    def values(self):
        self._all()
        return super().values()

    def keys(self):
        self._all()
        return super().keys()

    def __iter__(self):
        self._all()
        return super().__iter__()

    def copy(self):
        self._all()
        return dict(self)


def _load(target):
    t = copy.deepcopy(target)
    for n in ast.walk(t):
        if hasattr(n, "ctx"):
            n.ctx = ast.Load()
    return t


def fork_env(env):
    """copy an environment preserving aliasing between mutable abstract objects"""
    memo = {}
    out = {k: _fork(v, memo) for k, v in env.items()}
    return out, memo


def _fork(v, memo):
    if isinstance(v, (Val, Rot, Func, ClassRef, Ref, SliceV)) or v is None:
        return v
    i = id(v)
    if i in memo:
        return memo[i][1]
    if isinstance(v, Frame):
        c = v.clone()
        memo[i] = (v, c)
        return c
    if isinstance(v, Arr):
        c = Arr(v.cols, v.ndim, v.space, v.single_row)
        c.notes = list(v.notes)
        for a in ("pos_of", "elem_space", "sorted_by"):
            if hasattr(v, a):
                setattr(c, a, getattr(v, a))
        memo[i] = (v, c)
        return c
    if isinstance(v, Seq):
        c = Seq([], v.kind)
        memo[i] = (v, c)
        c.items = [_fork(x, memo) for x in v.items]
        for a in ("born", "accumulated", "of_frame", "sorted", "sort_kwargs"):
            if hasattr(v, a):
                setattr(c, a, getattr(v, a))
        return c
    if isinstance(v, DictV):
        c = DictV()
        memo[i] = (v, c)
        c.items = {k: _fork(x, memo) for k, x in v.items.items()}
        return c
    if isinstance(v, Obj):
        c = Obj(v.cls)
        memo[i] = (v, c)
        c.attrs = {k: _fork(x, memo) for k, x in v.attrs.items()}
        return c
    if isinstance(v, Unk):
        return v
    if isinstance(v, Method):
        return Method(_fork(v.recv, memo), v.name)
    if isinstance(v, Indexer):
        return Indexer(_fork(v.recv, memo), v.kind)
    return v


def assigned_names(stmts):
    out = set()
    for st in stmts:
        for n in ast.walk(st):
            if isinstance(n, (ast.Assign, ast.AugAssign, ast.AnnAssign)):
                tg = n.targets if isinstance(n, ast.Assign) else [n.target]
                for t in tg:
                    out |= target_names(t)
                    r = root_name(t)
                    if r:
                        out.add(r)
            elif isinstance(n, (ast.For,)):
                out |= target_names(n.target)
            elif isinstance(n, ast.Call) and isinstance(n.func, ast.Attribute) and n.func.attr in (
                    "append", "extend", "add", "update", "sort", "pop", "remove", "insert"):
                r = root_name(n.func.value)
                if r:
                    out.add(r)
            elif isinstance(n, ast.NamedExpr):
                out |= target_names(n.target)
    return out


def append_only(body, names, module):
    """names that the loop body touches only through X.append(...) / X.extend(...) / X.add(...)"""
    out = set()
    for name in names:
        ok, seen = True, False
        for st in body:
            for n in ast.walk(st):
                if isinstance(n, ast.Name) and n.id == name:
                    seen = True
                    par = module.parents.get(n)
                    gp = module.parents.get(par) if par is not None else None
                    if not (isinstance(par, ast.Attribute) and par.attr in ("append", "extend", "add")
                            and isinstance(gp, ast.Call) and gp.func is par):
                        ok = False
        if ok and seen:
            out.add(name)
    return out


def store_only(body, names, module):
    """names the loop body uses only as the base of element stores  X[...] = value  (an array being filled)"""
    out = set()
    for name in names:
        ok, seen = True, False
        for st in body:
            for n in ast.walk(st):
                if isinstance(n, ast.Name) and n.id == name:
                    seen = True
                    par = module.parents.get(n)
                    gp = module.parents.get(par) if par is not None else None
                    if not (isinstance(par, ast.Subscript) and par.value is n and isinstance(par.ctx, ast.Store)
                            and isinstance(gp, ast.Assign)):
                        ok = False
        if ok and seen:
            out.add(name)
    return out


def target_names(t):
    if isinstance(t, ast.Name):
        return {t.id}
    if isinstance(t, (ast.Tuple, ast.List)):
        s = set()
        for e in t.elts:
            s |= target_names(e)
        return s
    if isinstance(t, ast.Starred):
        return target_names(t.value)
    return set()


def root_name(t):
    while isinstance(t, (ast.Attribute, ast.Subscript)):
        t = t.value
    if isinstance(t, ast.Name):
        return t.id
    return None
