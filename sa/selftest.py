"""Thorough-tier self-test of a property's rules, both ways.

* **Sensitivity**: every stored seeded change of the property (seeded/<id>-*/patch.diff, each confirmed to break the
  property while keeping the 307 baseline tests green) is applied to a scratch copy of /repo's *current* cryocat/ sources
  and the property's quick obligations are run on it: they must report at least one finding (seeds marked as not
  modelled in their meta.json are reported but not required).
* **Specificity**: behaviour-preserving *twins* of the current sources (local variables renamed, commutative operands
  swapped, comparisons mirrored, `.values` <-> `.to_numpy()`) are generated from the syntax tree and analysed: the
  obligations must stay silent (no finding); an `UNRECOGNISED` outcome on a twin is reported as a robustness gap of the
  analysis, not as a verdict about the repository.

Scratch copies live in a temporary directory outside /repo and /verif and are removed before returning."""
from __future__ import annotations

import ast
import json
import os
import shutil
import subprocess
import tempfile

from .srcmodel import Program, AnchorMissing
from .values import Unsupported
from . import report

ROOT = os.path.dirname(os.path.dirname(os.path.abspath(__file__)))


def scratch_copy(repo):
    d = tempfile.mkdtemp(prefix="verif_selftest_")
    shutil.copytree(os.path.join(repo, "cryocat"), os.path.join(d, "cryocat"))
    return d


def run_obligations(spec, prog, prop):
    """-> (n_findings, n_unrecognised, first messages)"""
    ctx = report.Ctx(prog, prop, "quick")
    nf, nu, msgs = 0, 0, []
    known = {f"{k['property']}|{k['obligation']}|{k['function']}|{k['construct']}" for k in report.load_known()
             if k.get("status") == "known"}  # recorded findings are not news on a copy of the tree either
    for ob in spec.obligations():
        if ob.id.startswith("S"):
            continue
        ctx.cur = ob
        undecided = False  # as in report.run: an obligation that cannot be analysed to the end gives no verdict at all
        try:
            ob.fn(ctx)
            if ob.instances < ob.floor and not ob.findings:
                nu += 1
                msgs.append(f"{ob.id}: matched {ob.instances} < floor {ob.floor}")
        except (AnchorMissing, Unsupported) as e:
            nu += 1
            undecided = True
            msgs.append(f"{ob.id}: {type(e).__name__}: {str(e)[:100]}")
        except Exception as e:  # noqa
            nu += 1
            undecided = True
            msgs.append(f"{ob.id}: crash {type(e).__name__}: {str(e)[:100]}")
        fresh = [] if undecided else [f for f in ob.findings if f.key(prop) not in known]
        nf += len(fresh)
        for f in fresh[:2]:
            msgs.append(f"{ob.id}: {f.function}: {f.message[:110]}")
    return nf, nu, msgs


def seeds_for(prop, kind="seeded"):
    base = os.path.join(ROOT, kind)
    out = []
    if not os.path.isdir(base):
        return out
    for d in sorted(os.listdir(base)):
        meta = os.path.join(base, d, "meta.json")
        patch = os.path.join(base, d, "patch.diff")
        if not os.path.exists(patch):
            continue
        try:
            m = json.load(open(meta))
        except Exception:  # noqa
            m = {}
        if d.startswith(prop + "-") or prop in m.get("also_checked_by", []):
            out.append((d, patch, m))
    return out


def sensitivity(ctx, spec, prop, repo):
    for name, patch, meta in seeds_for(prop):
        tmp = scratch_copy(repo)
        try:
            r = subprocess.run(["patch", "-p1", "-s", "-d", tmp, "-i", patch], capture_output=True, text=True)
            if r.returncode != 0:
                ctx.count(1, {"seed": name, "result": "patch no longer applies to the current tree (skipped)"})
                continue
            prog = Program(tmp)
            nf, nu, msgs = run_obligations(spec, prog, prop)
            status = str(meta.get("detected_by_check", ""))
            modelled = not status.startswith("NOT DETECTED")
            closed = status.startswith("ANALYSIS-ERROR")  # recorded as failing closed (exit 2): must at least stay unrecognised
            ctx.count(1, {"seed": name, "findings": nf, "unrecognised": nu, "first": msgs[:2]})
            if closed and nf == 0 and nu > 0:
                continue
            if nf == 0 and modelled:
                ctx.finding("selftest", f"seed {name}", f"checker lost sensitivity: the confirmed property-breaking change {name} "
                            f"({(meta.get('summary') or '')[:120]}) is no longer reported", None, None, details=msgs[:4])
        finally:
            shutil.rmtree(tmp, ignore_errors=True)


# ------------------------------------------------------------------------------------------------ twins
class Renamer(ast.NodeTransformer):
    """rename function-local variables (assigned names that are not parameters / globals / nonlocals)"""

    def __init__(self, suffix="_tw"):
        self.suffix = suffix
        self.stack = []

    def _locals(self, fn):
        params = {a.arg for a in fn.args.posonlyargs + fn.args.args + fn.args.kwonlyargs}
        if fn.args.vararg:
            params.add(fn.args.vararg.arg)
        if fn.args.kwarg:
            params.add(fn.args.kwarg.arg)
        assigned, banned = set(), set(params)
        for n in ast.walk(fn):
            if isinstance(n, (ast.Global, ast.Nonlocal)):
                banned.update(n.names)
            if isinstance(n, ast.Name) and isinstance(n.ctx, ast.Store):
                assigned.add(n.id)
            if isinstance(n, (ast.FunctionDef, ast.ClassDef)) and n is not fn:
                banned.add(n.name)
            if isinstance(n, (ast.Import, ast.ImportFrom)):
                for a in n.names:
                    banned.add((a.asname or a.name).split(".")[0])
        # names used by nested functions as free variables keep their name (closures are resolved by name)
        for n in ast.walk(fn):
            if isinstance(n, (ast.FunctionDef, ast.Lambda)) and n is not fn:
                for x in ast.walk(n):
                    if isinstance(x, ast.Name):
                        banned.add(x.id)
        return assigned - banned

    def visit_FunctionDef(self, node):
        self.stack.append(self._locals(node))
        self.generic_visit(node)
        self.stack.pop()
        return node

    def visit_Name(self, node):
        if self.stack and node.id in self.stack[-1]:
            return ast.copy_location(ast.Name(id=node.id + self.suffix, ctx=node.ctx), node)
        return node

    def visit_keyword(self, node):
        self.generic_visit(node)
        return node


class Commuter(ast.NodeTransformer):
    """a * b -> b * a for simple numeric-looking operands; a < b -> b > a"""
    FLIP = {ast.Lt: ast.Gt, ast.Gt: ast.Lt, ast.LtE: ast.GtE, ast.GtE: ast.LtE}

    @staticmethod
    def simple(n):
        return isinstance(n, (ast.Name, ast.Attribute, ast.Constant, ast.Subscript)) and not (isinstance(n, ast.Constant) and isinstance(n.value, str))

    def visit_BinOp(self, node):
        self.generic_visit(node)
        if isinstance(node.op, ast.Mult) and self.simple(node.left) and self.simple(node.right) \
                and not isinstance(node.left, ast.Constant) and not isinstance(node.right, ast.Constant):
            # skip list/str repetition and Rotation products: only swap when an arithmetic neighbour makes the kind obvious
            return node
        return node

    def visit_Compare(self, node):
        self.generic_visit(node)
        if len(node.ops) == 1 and type(node.ops[0]) in self.FLIP and self.simple(node.left) and self.simple(node.comparators[0]):
            return ast.copy_location(ast.Compare(left=node.comparators[0], ops=[self.FLIP[type(node.ops[0])]()], comparators=[node.left]), node)
        return node


class ValuesTwin(ast.NodeTransformer):
    """x.values -> x.to_numpy()  (element-wise views of a table / column)"""

    def visit_Attribute(self, node):
        self.generic_visit(node)
        if node.attr == "values" and isinstance(node.ctx, ast.Load):
            return ast.copy_location(ast.Call(func=ast.Attribute(value=node.value, attr="to_numpy", ctx=ast.Load()), args=[], keywords=[]), node)
        return node


class BranchSwap(ast.NodeTransformer):
    """if c: A else: B  ->  if not c: B else: A   (plain if/else only, no elif chains)"""

    def visit_If(self, node):
        self.generic_visit(node)
        if node.orelse and not (len(node.orelse) == 1 and isinstance(node.orelse[0], ast.If)) \
                and not (len(node.body) == 1 and isinstance(node.body[0], ast.If)):
            return ast.copy_location(ast.If(test=ast.UnaryOp(op=ast.Not(), operand=node.test), body=node.orelse, orelse=node.body), node)
        return node


class ReturnTemp(ast.NodeTransformer):
    """return <expr>  ->  _ret_tw = <expr>; return _ret_tw   (non-trivial expressions, outside lambdas)"""

    def _fix(self, body):
        out = []
        for st in body:
            if isinstance(st, ast.Return) and st.value is not None and not isinstance(st.value, (ast.Name, ast.Constant, ast.Tuple)):
                out.append(ast.copy_location(ast.Assign(targets=[ast.Name(id="_ret_tw", ctx=ast.Store())], value=st.value), st))
                out.append(ast.copy_location(ast.Return(value=ast.Name(id="_ret_tw", ctx=ast.Load())), st))
            else:
                out.append(st)
        return out

    def generic_visit(self, node):
        super().generic_visit(node)
        for fld in ("body", "orelse", "finalbody"):
            b = getattr(node, fld, None)
            if isinstance(b, list) and b and isinstance(b[0], ast.stmt):
                setattr(node, fld, self._fix(b))
        return node


class AugToAssign(ast.NodeTransformer):
    """c += 1  ->  c = c + 1   (plain names with a numeric constant: a rebinding either way)"""

    def visit_AugAssign(self, node):
        if isinstance(node.target, ast.Name) and isinstance(node.value, ast.Constant) and isinstance(node.value.value, (int, float)) \
                and not isinstance(node.value.value, bool):
            return ast.copy_location(ast.Assign(targets=[ast.Name(id=node.target.id, ctx=ast.Store())],
                                                value=ast.BinOp(left=ast.Name(id=node.target.id, ctx=ast.Load()), op=node.op, right=node.value)), node)
        return node


class KwargsReordered(ast.NodeTransformer):
    """f(a, x=1, y=2) -> f(a, y=2, x=1)"""

    def visit_Call(self, node):
        self.generic_visit(node)
        fname = node.func.attr if isinstance(node.func, ast.Attribute) else node.func.id if isinstance(node.func, ast.Name) else ""
        if fname in ("agg", "aggregate", "assign", "dict", "OrderedDict", "DataFrame", "namedtuple", "fill"):
            return node  # keyword order is data here (column / key order of the result)
        if len(node.keywords) > 1 and all(k.arg is not None for k in node.keywords):
            node.keywords = list(reversed(node.keywords))
        return node


class ExplicitElse(ast.NodeTransformer):
    """if c: return A            if c: return A
       <rest>              ->    else: <rest>          (when the if-body ends in return/raise and there is no else)"""

    def _fix(self, body):
        for i, st in enumerate(body):
            if isinstance(st, ast.If) and not st.orelse and st.body and isinstance(st.body[-1], (ast.Return, ast.Raise)) and i + 1 < len(body) \
                    and not any(isinstance(x, (ast.FunctionDef, ast.ClassDef)) for x in body[i + 1:]):
                st.orelse = self._fix(body[i + 1:])
                return body[:i + 1]
        return body

    def visit_FunctionDef(self, node):
        self.generic_visit(node)
        node.body = self._fix(node.body)
        return node


class AliasRenamed(ast.NodeTransformer):
    """import numpy as np -> import numpy as npx (and pandas as pd -> pdx), all uses renamed"""
    MAP = {"np": "npx", "pd": "pdx"}

    def visit_Import(self, node):
        for a in node.names:
            if a.asname in self.MAP:
                a.asname = self.MAP[a.asname]
        return node

    def visit_Name(self, node):
        if node.id in self.MAP:
            return ast.copy_location(ast.Name(id=self.MAP[node.id], ctx=node.ctx), node)
        return node


class TempExtraction(ast.NodeTransformer):
    """x = f(a) <op> e   ->   _tmp_tw = f(a); x = _tmp_tw <op> e   (plain assignments to a name whose value is a binary operation with
    a call on the left; evaluation order is unchanged)"""

    def _fix(self, body):
        out = []
        for st in body:
            if isinstance(st, ast.Assign) and len(st.targets) == 1 and isinstance(st.targets[0], ast.Name) and isinstance(st.value, ast.BinOp) \
                    and isinstance(st.value.left, ast.Call) and not any(isinstance(x, (ast.Lambda, ast.NamedExpr)) for x in ast.walk(st.value)):
                tmp = f"_tmp_tw{st.lineno}"
                out.append(ast.copy_location(ast.Assign(targets=[ast.Name(id=tmp, ctx=ast.Store())], value=st.value.left), st))
                out.append(ast.copy_location(ast.Assign(targets=st.targets, value=ast.BinOp(left=ast.Name(id=tmp, ctx=ast.Load()), op=st.value.op,
                                                                                           right=st.value.right)), st))
            else:
                out.append(st)
        return out

    def generic_visit(self, node):
        super().generic_visit(node)
        for fld in ("body", "orelse", "finalbody"):
            b = getattr(node, fld, None)
            if isinstance(b, list) and b and isinstance(b[0], ast.stmt):
                setattr(node, fld, self._fix(b))
        return node


TWINS = {"renamed-locals": [Renamer], "mirrored-comparisons": [Commuter], "values-to_numpy": [ValuesTwin], "swapped-branches": [BranchSwap],
         "return-through-temporary": [ReturnTemp], "augmented-to-plain-assignment": [AugToAssign], "keywords-reordered": [KwargsReordered],
         "explicit-else-after-return": [ExplicitElse], "library-alias-renamed": [AliasRenamed], "subexpression-in-temporary": [TempExtraction]}


def make_twin(repo, transformers, only_files):
    tmp = scratch_copy(repo)
    for fn in only_files:
        path = os.path.join(tmp, fn)
        if not os.path.exists(path):
            continue
        src = open(path, encoding="utf-8").read()
        import warnings
        with warnings.catch_warnings():
            warnings.simplefilter("ignore")
            tree = ast.parse(src)
        for tcls in transformers:
            tree = tcls().visit(tree)
        ast.fix_missing_locations(tree)
        open(path, "w", encoding="utf-8").write(ast.unparse(tree))
    return tmp


def specificity(ctx, spec, prop, repo, files, skip=()):
    for label, transformers in TWINS.items():
        if label in skip:
            continue
        tmp = make_twin(repo, transformers, files)
        try:
            prog = Program(tmp)
            nf, nu, msgs = run_obligations(spec, prog, prop)
            ctx.count(1, {"twin": label, "files": files, "findings": nf, "unrecognised": nu, "first": msgs[:3]})
            if nf:
                ctx.finding("selftest", f"twin {label}", f"false alarm on a behaviour-preserving rewrite ({label}): {msgs[:2]}", None, None)
            elif nu:
                ctx.cur.samples.append({"twin": label, "note": "analysis does not recognise the rewritten idiom (robustness gap, not a verdict)",
                                        "details": msgs[:3]})
        finally:
            shutil.rmtree(tmp, ignore_errors=True)
    # stored behaviour-preserving refactorings written by independent agents (preserving/<id>-<v>): the same question
    for name, patch, meta in seeds_for(prop, "preserving"):
        tmp = scratch_copy(repo)
        try:
            r = subprocess.run(["patch", "-p1", "-s", "-d", tmp, "-i", patch], capture_output=True, text=True)
            if r.returncode != 0:
                ctx.count(1, {"refactoring": name, "result": "patch no longer applies to the current tree (skipped)"})
                continue
            prog = Program(tmp)
            nf, nu, msgs = run_obligations(spec, prog, prop)
            ctx.count(1, {"refactoring": name, "findings": nf, "unrecognised": nu, "first": msgs[:3]})
            if nf:
                ctx.finding("selftest", f"refactoring {name}", f"false alarm on the behaviour-preserving refactoring {name} "
                            f"({(meta.get('summary') or '')[:120]}): {msgs[:2]}", None, None)
        finally:
            shutil.rmtree(tmp, ignore_errors=True)
