"""Small def-use rules on the syntax tree (statement order + branch exclusivity).

stale_selectors: a row selector  M = <comparison over X[c]>  is used again after X[c] has been rewritten: the selector still
describes the rows as they were, so the later use picks / updates rows that no longer satisfy the test."""
from __future__ import annotations

import ast


def _txt(n):
    try:
        return " ".join(ast.unparse(n).split())
    except Exception:  # noqa
        return "<?>"


def _arms(parents, node, stop):
    """[(If node, arm)] enclosing `node` up to `stop`"""
    out = []
    ch, p = node, parents.get(node)
    while p is not None and ch is not stop:
        if isinstance(p, ast.If):
            arm = "body" if any(ch is x for x in p.body) else "orelse" if any(ch is x for x in p.orelse) else None
            if arm:
                out.append((id(p), arm))
        ch, p = p, parents.get(p)
    return out


def _exclusive(a, b):
    da = dict(a)
    return any(k in da and da[k] != arm for k, arm in b)


def _col_reads(expr):
    """(table text, column text) pairs read inside comparisons of `expr`"""
    out = set()
    for c in ast.walk(expr):
        if not isinstance(c, ast.Compare):
            continue
        for s in ast.walk(c):
            if isinstance(s, ast.Subscript) and isinstance(s.value, (ast.Name, ast.Attribute)) and not isinstance(s.slice, (ast.Slice, ast.Tuple)):
                base = s.value
                if isinstance(base, ast.Attribute) and base.attr in ("loc", "iloc"):
                    continue
                out.add((_txt(base), _txt(s.slice)))
    return out


def _col_writes(st):
    """(table text, column text) pairs written by statement `st`"""
    tgts = st.targets if isinstance(st, ast.Assign) else [st.target] if isinstance(st, (ast.AugAssign, ast.AnnAssign)) else []
    out = set()
    for t in tgts:
        if not isinstance(t, ast.Subscript):
            continue
        base = t.value
        if isinstance(base, ast.Attribute) and base.attr in ("loc", "iloc", "at", "iat"):
            tab = _txt(base.value)
            sl = t.slice
            if isinstance(sl, ast.Tuple) and len(sl.elts) == 2:
                col = sl.elts[1]
                if isinstance(col, ast.List):
                    for e in col.elts:
                        out.add((tab, _txt(e)))
                else:
                    out.add((tab, _txt(col)))
        elif isinstance(base, (ast.Name, ast.Attribute)) and not isinstance(t.slice, (ast.Slice, ast.Tuple)):
            if isinstance(t.slice, ast.List):
                for e in t.slice.elts:
                    out.add((_txt(base), _txt(e)))
            else:
                out.add((_txt(base), _txt(t.slice)))
    return out


def _is_mask(v):
    if isinstance(v, ast.Compare):
        return True
    if isinstance(v, ast.BinOp) and isinstance(v.op, (ast.BitAnd, ast.BitOr, ast.BitXor)):
        return _is_mask(v.left) and _is_mask(v.right)
    if isinstance(v, ast.UnaryOp) and isinstance(v.op, (ast.Invert, ast.Not)):
        return _is_mask(v.operand)
    if isinstance(v, ast.BoolOp):
        return all(_is_mask(x) for x in v.values)
    if isinstance(v, ast.Call) and isinstance(v.func, ast.Attribute) and v.func.attr in ("isin", "eq", "ne", "lt", "le", "gt", "ge", "between", "isna", "notna"):
        return True
    return False


def stale_selectors(module, fn):
    """-> [(def stmt, write stmt, use node, selector name, table, column)], count of selectors examined"""
    parents = module.parents
    stmts = [n for n in ast.walk(fn) if isinstance(n, ast.stmt) and n is not fn]
    stmts.sort(key=lambda n: (n.lineno, n.col_offset))
    found, examined = [], 0
    for d in stmts:
        if not (isinstance(d, ast.Assign) and len(d.targets) == 1 and isinstance(d.targets[0], ast.Name)):
            continue
        if not _is_mask(d.value):
            continue
        reads = _col_reads(d.value) | {(_txt(c.func.value.value), _txt(c.func.value.slice)) for c in ast.walk(d.value)
                                        if isinstance(c, ast.Call) and isinstance(c.func, ast.Attribute) and isinstance(c.func.value, ast.Subscript)
                                        and not isinstance(c.func.value.slice, (ast.Slice, ast.Tuple))}
        if not reads:
            continue
        name = d.targets[0].id
        examined += 1
        pos_d = (d.lineno, d.col_offset)
        # the selector is dead once the name is assigned again
        kills = [s for s in stmts if s is not d and isinstance(s, ast.Assign) and any(isinstance(t, ast.Name) and t.id == name for t in s.targets)
                 and (s.lineno, s.col_offset) > pos_d]
        end = min(((k.lineno, k.col_offset) for k in kills), default=(10 ** 9, 0))
        for w in stmts:
            pos_w = (w.lineno, w.col_offset)
            if not (pos_d < pos_w < end):
                continue
            hit = _col_writes(w) & reads
            if not hit:
                continue
            # the write itself may use the selector (df.loc[M, c] = ...): that use is fine, later ones are not
            for u in ast.walk(fn):
                if isinstance(u, ast.Name) and u.id == name and isinstance(u.ctx, ast.Load):
                    pos_u = (u.lineno, u.col_offset)
                    ust = u
                    while ust is not None and not isinstance(ust, ast.stmt):
                        ust = parents.get(ust)
                    if ust is None or ust is w or not (pos_w < pos_u < end):
                        continue
                    if _exclusive(_arms(parents, w, fn), _arms(parents, ust, fn)):
                        continue
                    tab, col = sorted(hit)[0]
                    found.append((d, w, ust, name, tab, col))
                    break
    return found, examined


def _is_empty_container(e):
    if isinstance(e, (ast.List, ast.Set, ast.Tuple)) and not e.elts:
        return True
    if isinstance(e, ast.Dict) and not e.keys:
        return True
    if isinstance(e, ast.Call) and not e.args and not e.keywords and isinstance(e.func, ast.Name) and e.func.id in ("list", "set", "dict", "tuple"):
        return True
    return False


def lost_accumulation(module, fn):
    """A result that is started as an empty container before a loop, *overwritten* (not extended) on every iteration from something that
    depends on the loop variable, and used after the loop: only the last iteration contributes.
    -> ([(init stmt, overwriting stmt, loop, name)], number of candidate accumulators examined)"""
    found, examined = [], 0
    parents = module.parents

    def block_of(st):
        p = parents.get(st)
        for fld in ("body", "orelse", "finalbody"):
            b = getattr(p, fld, None)
            if isinstance(b, list) and any(x is st for x in b):
                return b
        return None

    for loop in [n for n in ast.walk(fn) if isinstance(n, ast.For)]:
        blk = block_of(loop)
        if blk is None:
            continue
        k = next(i for i, x in enumerate(blk) if x is loop)
        inits = {}
        for st in blk[:k]:
            if isinstance(st, ast.Assign) and len(st.targets) == 1 and isinstance(st.targets[0], ast.Name) and _is_empty_container(st.value):
                inits[st.targets[0].id] = st
            elif isinstance(st, ast.Assign):
                for t in st.targets:
                    if isinstance(t, ast.Name):
                        inits.pop(t.id, None)
        if not inits:
            continue
        loop_vars = {x.id for x in ast.walk(loop.target) if isinstance(x, ast.Name)}
        has_break = any(isinstance(x, ast.Break) for x in ast.walk(loop))
        for name, init in inits.items():
            examined += 1
            body_nodes = [x for st in loop.body for x in ast.walk(st)]
            stores = [st for st in loop.body if isinstance(st, ast.Assign) and any(isinstance(t, ast.Name) and t.id == name for t in st.targets)]
            if len(stores) != 1 or has_break:
                continue
            st = stores[0]
            rhs_names = {x.id for x in ast.walk(st.value) if isinstance(x, ast.Name)}
            if name in rhs_names or not (rhs_names & loop_vars):
                continue  # accumulates (x = x + ..) or does not depend on the iteration
            other_uses = [x for x in body_nodes if isinstance(x, ast.Name) and x.id == name and not any(x is t for t in st.targets)]
            if other_uses:
                continue  # used / extended inside the loop: a per-iteration temporary
            after = [x for s2 in blk[k + 1:] for x in ast.walk(s2) if isinstance(x, ast.Name) and x.id == name and isinstance(x.ctx, ast.Load)]
            if after:
                found.append((init, st, loop, name))
    return found, examined


def python_bool_inverted(module, fn, call_is_bool=None):
    """`~flag` where `flag` is a plain Python bool (every assignment to it in the function is True / False / a `not` / an `and`-`or` of such):
    the operator is the integer complement (~True == -2, ~False == -1), both of which are true in a test -- unlike `~` on a numpy
    boolean, which the surrounding array code uses for 'not'.  -> [(use node, name)], number of flags examined"""
    assigned = {}
    for st in ast.walk(fn):
        tgts = []
        if isinstance(st, ast.Assign):
            tgts = [(t, st.value) for t in st.targets]
        elif isinstance(st, ast.AnnAssign) and st.value is not None:
            tgts = [(st.target, st.value)]
        elif isinstance(st, (ast.AugAssign, ast.For, ast.With, ast.NamedExpr)):
            t = getattr(st, "target", None)
            if isinstance(t, ast.Name):
                assigned.setdefault(t.id, []).append(None)
        for t, v in tgts:
            for x in ast.walk(t):
                if isinstance(x, ast.Name):
                    assigned.setdefault(x.id, []).append(v if isinstance(t, ast.Name) else None)
    params = {a.arg for a in fn.args.posonlyargs + fn.args.args + fn.args.kwonlyargs}

    def plain(v, depth=0):
        if isinstance(v, ast.Constant):
            return isinstance(v.value, bool)
        if isinstance(v, ast.UnaryOp) and isinstance(v.op, ast.Not):
            return True  # `not x` is always a Python bool
        if isinstance(v, ast.BoolOp):
            return all(plain(x, depth + 1) for x in v.values)
        if isinstance(v, ast.Name) and depth < 3 and v.id in flags_:
            return True
        if isinstance(v, ast.Call) and call_is_bool is not None and call_is_bool(v):
            return True  # a repository function all of whose returns are True / False
        return False

    flags_ = set()
    for _ in range(3):
        for name, vals in assigned.items():
            if name not in params and vals and all(v is not None and plain(v) for v in vals):
                flags_.add(name)
    found = []
    for n in ast.walk(fn):
        if isinstance(n, ast.UnaryOp) and isinstance(n.op, ast.Invert) and isinstance(n.operand, ast.Name) and n.operand.id in flags_:
            found.append((n, n.operand.id))
    return found, len(flags_)


# ------------------------------------------------------------------------------------------------ positions as truth values
_POS_METHODS = ("index", "find", "rfind")
_POS_NUMPY = ("argmax", "argmin", "nanargmax", "nanargmin", "searchsorted")


def is_position_expr(e):
    """an expression whose value is a position (0 = the first one): seq.index(x), s.find(x), np.argmax(a), a.argmax()"""
    if isinstance(e, ast.Call) and isinstance(e.func, ast.Attribute):
        if e.func.attr in _POS_METHODS and len(e.args) >= 1:
            return True
        if e.func.attr in _POS_NUMPY:
            return True
    return False


def returns_position(fn):
    """every `return` of fn gives a position or None, and at least one gives a position"""
    rets = [r.value for r in ast.walk(fn) if isinstance(r, ast.Return)]
    nested = {id(x) for n in ast.walk(fn) if isinstance(n, (ast.FunctionDef, ast.Lambda)) and n is not fn for x in ast.walk(n)}
    rets = [r for r in rets if id(r) not in nested]
    if not rets:
        return False
    pos = 0
    for r in rets:
        if r is None or (isinstance(r, ast.Constant) and r.value is None):
            continue
        if is_position_expr(r):
            pos += 1
            continue
        if isinstance(r, ast.Name):
            # a local holding a position: every assignment to it is a position expression
            asg = [a.value for a in ast.walk(fn) if isinstance(a, ast.Assign) and any(isinstance(t, ast.Name) and t.id == r.id for t in a.targets)]
            if asg and all(is_position_expr(a) or (isinstance(a, ast.Constant) and a.value is None) for a in asg) and any(is_position_expr(a) for a in asg):
                pos += 1
                continue
        return False
    return pos > 0


def positions_as_truth(module, fn, call_gives_position):
    """-> ([(use node, description)], examined): a position (of a found element: 0 is the first one, "not found" is None / an exception)
    used as a truth value -- `if pos:`, `pos and ...`, `not pos`, `x if pos else y`, `if (pos := f()):`"""
    found, examined = [], 0
    nested = {id(x) for n in ast.walk(fn) if isinstance(n, (ast.FunctionDef, ast.Lambda)) and n is not fn for x in ast.walk(n)}

    def gives(e):
        if isinstance(e, ast.NamedExpr):
            return gives(e.value)
        return is_position_expr(e) or (isinstance(e, ast.Call) and call_gives_position(e))

    holders = {}
    for a in ast.walk(fn):
        if id(a) in nested:
            continue
        if isinstance(a, ast.Assign) and len(a.targets) == 1 and isinstance(a.targets[0], ast.Name):
            holders.setdefault(a.targets[0].id, []).append(a.value)
        elif isinstance(a, ast.NamedExpr) and isinstance(a.target, ast.Name):
            holders.setdefault(a.target.id, []).append(a.value)
        elif isinstance(a, (ast.AugAssign, ast.For)) and isinstance(getattr(a, "target", None), ast.Name):
            holders.setdefault(a.target.id, []).append(None)
    pos_names = {n for n, vals in holders.items() if vals and all(v is not None and (gives(v) or (isinstance(v, ast.Constant) and v.value is None)) for v in vals)
                 and any(v is not None and gives(v) for v in vals)}

    def truth_operands(n):
        if isinstance(n, (ast.If, ast.While, ast.IfExp)):
            yield n.test
        elif isinstance(n, ast.BoolOp):
            for v in n.values[:-1]:
                yield v
            par = module.parents.get(n)
            if isinstance(par, (ast.If, ast.While, ast.IfExp)) and par.test is n:
                yield n.values[-1]
        elif isinstance(n, ast.UnaryOp) and isinstance(n.op, ast.Not):
            yield n.operand
        elif isinstance(n, ast.comprehension):
            for c in n.ifs:
                yield c

    for n in ast.walk(fn):
        if id(n) in nested:
            continue
        for t in truth_operands(n):
            while isinstance(t, ast.UnaryOp) and isinstance(t.op, ast.Not):
                t = t.operand
            if isinstance(t, ast.BoolOp):
                continue  # its operands are visited on their own
            if isinstance(t, ast.Name) and t.id in pos_names:
                examined += 1
                found.append((t, t.id))
            elif gives(t):
                examined += 1
                found.append((t, "the result of " + " ".join(ast.unparse(t).split())[:50]))
    examined += len(pos_names)
    return found, examined


# ---------------------------------------------------------------------------------------------------------------------------------------------
# live values changed in passing (round 13: diagnostics, summaries and sanity checks that are not free of side effects)
# ---------------------------------------------------------------------------------------------------------------------------------------------
_VIEW_METHODS = {"ravel", "reshape", "view", "squeeze", "transpose", "swapaxes"}
_VIEW_ATTRS = {"T", "values", "real", "imag", "flat"}
_VIEW_FUNCS = {"asarray", "asanyarray", "ravel", "reshape", "squeeze", "atleast_1d", "atleast_2d", "transpose", "ascontiguousarray"}
_REORDER_METHODS = {"sort", "reverse", "partition"}
_ITER_MAKERS = {"iter", "zip", "map", "filter", "enumerate", "reversed", "open"}
_ITER_METHODS = {"itertuples", "iterrows", "items", "iteritems", "finditer"}


def _own_nodes(fn):
    """nodes of fn outside nested function definitions"""
    out, stack = [], list(fn.body)
    while stack:
        n = stack.pop()
        if isinstance(n, (ast.FunctionDef, ast.AsyncFunctionDef, ast.Lambda, ast.ClassDef)):
            continue
        out.append(n)
        stack.extend(ast.iter_child_nodes(n))
    return out


def _full_slice(s):
    return isinstance(s, ast.Slice) and s.lower is None and s.upper is None and s.step is None


def _root(e):
    """(name, partial) of the object an expression is (a view of), or None when it is a new object"""
    partial = False
    while True:
        if isinstance(e, ast.Name):
            return e.id, partial
        if isinstance(e, ast.Subscript):
            idx = e.slice.elts if isinstance(e.slice, ast.Tuple) else [e.slice]
            if any(isinstance(i, (ast.List, ast.ListComp, ast.Compare)) for i in idx):
                return None  # fancy / boolean indexing copies
            if not all(_full_slice(i) or (isinstance(i, ast.Constant) and i.value is Ellipsis) for i in idx):
                partial = True
            e = e.value
            continue
        if isinstance(e, ast.Attribute):
            if e.attr not in _VIEW_ATTRS:
                partial = True  # a field of an object: part of it
            e = e.value
            continue
        if isinstance(e, ast.Call) and isinstance(e.func, ast.Attribute) and e.func.attr in _VIEW_METHODS:
            e = e.func.value
            continue
        if isinstance(e, ast.Call) and isinstance(e.func, ast.Attribute) and e.func.attr in _VIEW_FUNCS and isinstance(e.func.value, ast.Name) \
                and e.func.value.id in ("np", "numpy") and e.args and not any(k.arg == "dtype" for k in e.keywords):
            e = e.args[0]
            continue
        return None


def live_mutations(module, fn):
    """-> (findings, undecided, examined); each entry (node, kind, text)
       kind 'slice-reordered'   an in-place reordering (.sort() / .partition() / .reverse() / shuffle) of a PART of an array or table (one column, one
                                row, the ravel of a slice) whose whole is used afterwards: the part is detached from the rest of each row
            'overwrite-input'   np.median / np.percentile / ... (overwrite_input=True) on an array that is used afterwards: numpy leaves it partially sorted
            'iterator-advanced' next() / islice() / list() / a loop over an iterator object that a later statement consumes: the later consumer starts
                                after the elements taken here (or gets nothing)
            'loop-rebinds'      a for-loop target that overwrites a variable of the function which is read again after the loop
       undecided: 'reordered'   a whole list / array is reordered in place and used afterwards (whether the order mattered is not decided here)"""
    nodes = _own_nodes(fn)
    params = {a.arg for a in fn.args.posonlyargs + fn.args.args + fn.args.kwonlyargs}
    loads = [(n.id, n.lineno, n) for n in nodes if isinstance(n, ast.Name) and isinstance(n.ctx, ast.Load)]
    assigns = [n for n in nodes if isinstance(n, ast.Assign) and len(n.targets) == 1 and isinstance(n.targets[0], ast.Name)]
    alias = {}
    for a in sorted(assigns, key=lambda x: x.lineno):
        r = _root(a.value)
        t = a.targets[0].id
        if r is not None and r[0] != t:
            base, part = r
            if base in alias:
                part = part or alias[base][1]
                base = alias[base][0]
            alias[t] = (base, part)
        else:
            alias.pop(t, None)
    loops = [n for n in nodes if isinstance(n, (ast.For, ast.While))]

    def used_after(names, node, stmt_end):
        inside = {id(x) for x in ast.walk(node)}
        for nm, ln, nd in loads:
            if nm in names and id(nd) not in inside and ln > stmt_end:
                return nd
        for lp in loops:  # a use earlier in an enclosing loop comes again
            if lp.lineno <= node.lineno <= getattr(lp, "end_lineno", lp.lineno):
                for nm, ln, nd in loads:
                    if nm in names and id(nd) not in inside and lp.lineno <= ln <= getattr(lp, "end_lineno", ln):
                        return nd
        return None

    def stmt_of(node):
        best = None
        for s in nodes:
            if isinstance(s, ast.stmt) and s.lineno <= node.lineno <= getattr(s, "end_lineno", s.lineno):
                if best is None or (s.lineno >= best.lineno and getattr(s, "end_lineno", 0) <= getattr(best, "end_lineno", 0)):
                    best = s
        return best

    def family(name):
        base = alias.get(name, (name, False))[0]
        return {base} | {k for k, v in alias.items() if v[0] == base} | {name}

    _DIAG = {"print", "warn", "debug", "info", "warning", "error", "exception", "log", "log_msg", "write", "critical"}

    def is_diag_call(x):
        return isinstance(x, ast.Call) and ((isinstance(x.func, ast.Name) and x.func.id in _DIAG) or (isinstance(x.func, ast.Attribute) and x.func.attr in _DIAG))

    def diag_only(names, after, depth=0):
        """every later use of `names` serves a log line only: it stands in a print / logger call, in a test that guards nothing but such calls, or in
        an assignment to a name for which the same holds"""
        for nm, ln, nd in loads:
            if nm not in names or ln <= after:
                continue
            stx = stmt_of(nd)
            if stx is None:
                return False
            if isinstance(stx, ast.Expr) and is_diag_call(stx.value):
                continue
            def body_ok(b):
                if (isinstance(b, ast.Expr) and is_diag_call(b.value)) or isinstance(b, ast.Pass):
                    return True
                if isinstance(b, ast.Assign) and len(b.targets) == 1 and isinstance(b.targets[0], (ast.Name, ast.Tuple)) and depth < 3:
                    tg_ = {t.id for t in ast.walk(b.targets[0]) if isinstance(t, ast.Name)}
                    return bool(tg_) and not (tg_ & params) and diag_only(tg_, getattr(b, "end_lineno", b.lineno), depth + 1)
                if isinstance(b, ast.If):
                    return all(body_ok(x) for x in b.body + b.orelse)
                return False
            if isinstance(stx, ast.If) and any(y is nd for y in ast.walk(stx.test)) and all(body_ok(b) for b in stx.body + stx.orelse):
                continue
            if isinstance(stx, ast.Assign) and len(stx.targets) == 1 and isinstance(stx.targets[0], (ast.Name, ast.Tuple)) and depth < 3:
                tg = {t.id for t in ast.walk(stx.targets[0]) if isinstance(t, ast.Name)}
                if tg and not (tg & params) and diag_only(tg, getattr(stx, "end_lineno", stx.lineno), depth + 1):
                    continue
            return False
        return True

    findings, undecided, examined = [], [], 0
    for c in nodes:
        if not isinstance(c, ast.Call):
            continue
        st = stmt_of(c)
        end = getattr(st, "end_lineno", c.lineno) if st is not None else c.lineno
        # (1) in-place reordering
        target = None
        if isinstance(c.func, ast.Attribute) and c.func.attr in _REORDER_METHODS and not (c.func.attr == "partition" and isinstance(c.func.value, ast.Constant)) \
                and not (isinstance(c.func.value, ast.Name) and c.func.value.id in ("np", "numpy", "pd", "pandas", "random", "str")):
            target = c.func.value
        elif isinstance(c.func, ast.Attribute) and c.func.attr == "shuffle" and c.args:
            target = c.args[0]
        if target is not None:
            examined += 1
            r = _root(target)
            if r is not None:
                name, part = r
                if name in alias:
                    part = part or alias[name][1]
                fam = family(name)
                if part:
                    others = fam - ({name} if isinstance(target, ast.Name) else set())
                    u = used_after(others, c, end)
                    base = alias.get(name, (name, False))[0]
                    if u is not None or base in params:
                        findings.append((c, "slice-reordered", f"`{_txt(target)}` is a part of `{base}` (a column / slice, not a copy) and is reordered in place: "
                                         f"its values are detached from the rest of their rows, and `{base}` is used afterwards"
                                         + (f" (line {u.lineno})" if u is not None else " (it is the caller's array)")))
                        continue
                u = used_after(fam, c, end)
                fresh_private = isinstance(target, ast.Name) and name not in alias and name not in params
                if u is not None and name not in params and not (fresh_private and diag_only({name}, end)):
                    undecided.append((c, "reordered", f"`{_txt(target)}` is reordered in place and used afterwards (line {u.lineno})"))
        # (2) overwrite_input=True
        ow = [k for k in c.keywords if k.arg == "overwrite_input" and isinstance(k.value, ast.Constant) and k.value.value is True]
        if ow and c.args:
            examined += 1
            r = _root(c.args[0])
            if r is not None:
                fam = family(r[0])
                u = used_after(fam, c, end)
                rets = [n for n in nodes if isinstance(n, ast.Return) and n.value is not None and any(isinstance(x, ast.Name) and x.id in fam for x in ast.walk(n.value))]
                base = alias.get(r[0], (r[0], False))[0]
                if u is not None or rets or base in params:
                    findings.append((c, "overwrite-input", f"`{_txt(c.func)}(..., overwrite_input=True)` leaves `{_txt(c.args[0])}` partially sorted, and `{base}` is "
                                     "used afterwards: its entries no longer stand where they belonged"))
    # (3) iterator objects consumed twice
    for a in assigns:
        v = a.value
        is_iter = isinstance(v, ast.GeneratorExp) or (isinstance(v, ast.Call) and (
            (isinstance(v.func, ast.Name) and v.func.id in _ITER_MAKERS) or (isinstance(v.func, ast.Attribute) and v.func.attr in _ITER_METHODS and v.func.attr not in ("items",))))
        if not is_iter:
            continue
        name = a.targets[0].id
        if sum(1 for b in assigns if b.targets[0].id == name) != 1:
            continue
        examined += 1
        uses = sorted([(ln, nd) for nm, ln, nd in loads if nm == name and ln > a.lineno], key=lambda x: x[0])
        if len(uses) < 2:
            continue
        first_ln, first = uses[0]
        # how is the first use consuming?  next(it) / islice(it, ..) / list(it) / for .. in it
        par = [p for p in nodes if any(ch is first for ch in ast.iter_child_nodes(p))]
        p0 = par[0] if par else None
        consuming = isinstance(p0, ast.Call) and ((isinstance(p0.func, ast.Name) and p0.func.id in ("next", "list", "tuple", "sorted", "sum", "max", "min", "len", "any", "all"))
                                                   or (isinstance(p0.func, ast.Attribute) and p0.func.attr in ("islice", "takewhile", "dropwhile")))
        consuming = consuming or (isinstance(p0, ast.For) and p0.iter is first) or (isinstance(p0, ast.comprehension) and p0.iter is first)
        chained = any(isinstance(n, ast.Call) and isinstance(n.func, ast.Attribute) and n.func.attr == "chain" for n in nodes)
        if consuming and not chained:
            findings.append((first, "iterator-advanced", f"`{name}` is an iterator ({_txt(v)[:50]}): line {first_ln} takes elements from it, and line {uses[1][0]} "
                             "consumes the same object afterwards -- the elements taken first never reach the later consumer"))
    # (4) a loop target that overwrites a live variable
    for lp in nodes:
        if not isinstance(lp, ast.For):
            continue
        tgts = [t for t in ast.walk(lp.target) if isinstance(t, ast.Name)]
        for t in tgts:
            examined += 1
            defs_before = [n for n in nodes if isinstance(n, ast.Name) and isinstance(n.ctx, ast.Store) and n.id == t.id and n.lineno < lp.lineno
                           and not any(isinstance(l2, ast.For) and any(x is n for x in ast.walk(l2.target)) for l2 in nodes)]
            if not defs_before and t.id not in params:
                continue
            end = getattr(lp, "end_lineno", lp.lineno)
            later_defs = [n.lineno for n in nodes if isinstance(n, ast.Name) and isinstance(n.ctx, ast.Store) and n.id == t.id and n.lineno > end]
            reads_after = [nd for nm, ln, nd in loads if nm == t.id and ln > end and not any(d <= ln for d in later_defs)]
            reads_before = [nd for nm, ln, nd in loads if nm == t.id and (max(n.lineno for n in defs_before) if defs_before else 0) <= ln < lp.lineno]
            in_outer_loop = any(isinstance(o, (ast.For, ast.While)) and o is not lp and o.lineno < lp.lineno and getattr(o, "end_lineno", 0) >= end for o in nodes)
            if reads_after and (reads_before or t.id in params) and not in_outer_loop:
                findings.append((lp, "loop-rebinds", f"the loop target `{t.id}` overwrites the variable `{t.id}` of this function (defined at line "
                                 f"{defs_before[-1].lineno if defs_before else fn.lineno}), which is read again after the loop (line {reads_after[0].lineno}): "
                                 "after the loop it holds the loop's last element"))
    # (4b) a tuple-unpacking assignment in a branch (`if report: a, b, c = <expr>`) that rebinds a variable which this block assigned before the branch and
    #      reads again after it, while a sibling target of the same unpacking is used inside the branch only: the unpacking serves the branch (a report)
    #      and overwrites the live variable on the way
    parents_ = {}
    for n in nodes + [fn]:
        for c in ast.iter_child_nodes(n):
            parents_[id(c)] = n
    for st in nodes:
        if not (isinstance(st, ast.Assign) and len(st.targets) == 1 and isinstance(st.targets[0], (ast.Tuple, ast.List))):
            continue
        names_ = [t.id for t in st.targets[0].elts if isinstance(t, ast.Name)]
        if len(names_) < 2:
            continue
        br = parents_.get(id(st))
        if not isinstance(br, ast.If) or not any(x is st for x in br.body + br.orelse):
            continue
        outer = parents_.get(id(br))
        blk = next((getattr(outer, f_) for f_ in ("body", "orelse", "finalbody") if isinstance(getattr(outer, f_, None), list) and any(x is br for x in getattr(outer, f_))), None)
        if blk is None:
            continue
        k_ = next(i for i, x in enumerate(blk) if x is br)
        rhs_ = {x.id for x in ast.walk(st.value) if isinstance(x, ast.Name)}
        end_ = getattr(br, "end_lineno", br.lineno)
        inside_only = [n_ for n_ in names_ if not any(isinstance(x, ast.Name) and x.id == n_ and isinstance(x.ctx, ast.Load) for s2 in blk[k_ + 1:] for x in ast.walk(s2))
                       and not any(isinstance(x, ast.Name) and x.id == n_ for s2 in blk[:k_] for x in ast.walk(s2))]
        for n_ in names_:
            examined += 1
            if n_ in rhs_ or n_ in inside_only:
                continue
            set_before = any(isinstance(s2, ast.Assign) and any(isinstance(x, ast.Name) and x.id == n_ and isinstance(x.ctx, ast.Store) for t2 in s2.targets for x in ast.walk(t2))
                             for s2 in blk[:k_])
            read_after = [x for s2 in blk[k_ + 1:] for x in ast.walk(s2) if isinstance(x, ast.Name) and x.id == n_ and isinstance(x.ctx, ast.Load)]
            reset_after = any(isinstance(s2, ast.Assign) and any(isinstance(x, ast.Name) and x.id == n_ and isinstance(x.ctx, ast.Store) for t2 in s2.targets for x in ast.walk(t2))
                              and s2.lineno < (read_after[0].lineno if read_after else 0) for s2 in blk[k_ + 1:])
            if set_before and read_after and not reset_after and not inside_only and not br.orelse:
                # every target of the unpacking is a live name of the block: whether the branch means to replace them (a fallback) or only borrows the names
                # (a report) is not decided here
                const_before = all(isinstance(s2.value, (ast.Constant, ast.Tuple, ast.List, ast.Dict)) for s2 in blk[:k_] if isinstance(s2, ast.Assign)
                                   and any(isinstance(x, ast.Name) and x.id == n_ for t2 in s2.targets for x in ast.walk(t2)))
                if not const_before:
                    undecided.append((st, "unpack-rebinds", f"`{_txt(st)[:70]}` (in the branch at line {br.lineno}) unpacks into `{n_}`, which this block computed before the branch "
                                      f"and reads again after it (line {read_after[0].lineno})"))
            if set_before and read_after and not reset_after and inside_only:
                findings.append((st, "loop-rebinds", f"`{_txt(st)[:70]}` (in the branch at line {br.lineno}) unpacks into `{n_}`, a variable this block set before the branch and reads "
                                 f"again after it (line {read_after[0].lineno}), while `{inside_only[0]}` of the same unpacking is used inside the branch only: whenever "
                                 f"the branch runs, `{n_}` goes on with the unpacked value instead of its own"))
    # (5) a parameter cut down to a fixed number of its elements and used afterwards
    for a in assigns:
        t = a.targets[0].id
        v = a.value
        if t in params and isinstance(v, ast.Subscript) and isinstance(v.value, ast.Name) and v.value.id == t and isinstance(v.slice, ast.Slice) \
                and any(isinstance(b, ast.Constant) and isinstance(b.value, int) and b.value != 0 for b in (v.slice.lower, v.slice.upper)):
            examined += 1
            u = used_after({t}, a, getattr(a, "end_lineno", a.lineno))
            if u is not None:
                findings.append((a, "parameter-truncated", f"the parameter `{t}` is rebound to `{_txt(v)}` and used afterwards (line {u.lineno}): for a longer "
                                 "input the remaining elements never reach the code that follows"))
    # (6) in-place arithmetic through a flattened / reshaped view of an array that is used afterwards
    for n in nodes:
        if isinstance(n, ast.AugAssign) and isinstance(n.target, ast.Name) and n.target.id in alias:
            d = [a for a in assigns if a.targets[0].id == n.target.id and a.lineno < n.lineno]
            if d and isinstance(d[-1].value, ast.Call) and isinstance(d[-1].value.func, ast.Attribute) and d[-1].value.func.attr in ("ravel", "reshape", "view"):
                examined += 1
                base = alias[n.target.id][0]
                u = used_after(family(n.target.id) - {n.target.id}, n, getattr(n, "end_lineno", n.lineno))
                if u is not None or base in params:
                    undecided.append((n, "view-updated", f"`{_txt(n)}` works on `{_txt(d[-1].value)}`, which is a view of `{base}` whenever no copy is needed: `{base}` "
                                      "changes with it and is used afterwards"))
    # (7) two parts of one array exchanged through views: `a[:, 1], a[:, 2] = a[:, 2], a[:, 1]` -- the right-hand sides are views, the first
    #     store destroys what the second one still needs
    for n in nodes:
        if isinstance(n, ast.Assign) and len(n.targets) == 1 and isinstance(n.targets[0], ast.Tuple) and isinstance(n.value, ast.Tuple) \
                and len(n.targets[0].elts) == len(n.value.elts) >= 2 and all(isinstance(t, ast.Subscript) for t in n.targets[0].elts):
            examined += 1
            tr = [_root(t) for t in n.targets[0].elts]
            vr = [(_root(v) if isinstance(v, ast.Subscript) else None) for v in n.value.elts]
            if all(r is not None for r in tr) and all(r is not None for r in vr) and len({r[0] for r in tr + vr}) == 1 and all(r[1] for r in tr + vr) \
                    and [_txt(t) for t in n.targets[0].elts] != [_txt(v) for v in n.value.elts]:
                findings.append((n, "swap-through-views", f"`{_txt(n)[:90]}`: the right-hand sides are views of `{tr[0][0]}`, not copies; the first store overwrites "
                                 "the part the second store still reads, so one part ends up twice and the other is lost"))
    # (8) in-place arithmetic / element stores through a name that IS another live array (plain alias `x = y`) or a basic-slicing view of it
    def arrayish(name):
        for x in nodes:
            if isinstance(x, ast.Subscript) and isinstance(x.value, ast.Name) and x.value.id == name and isinstance(x.slice, (ast.Slice, ast.Tuple)):
                return True
            if isinstance(x, ast.Attribute) and isinstance(x.value, ast.Name) and x.value.id == name and x.attr in ("shape", "T", "dtype", "mean", "sum", "reshape", "astype", "ndim", "size", "max", "min"):
                return True
        return False
    for n in nodes:
        if isinstance(n, ast.AugAssign) and isinstance(n.target, ast.Name) and n.target.id in alias:
            nm = n.target.id
            d = [a for a in assigns if a.targets[0].id == nm and a.lineno < n.lineno]
            if not d:
                continue
            dv = d[-1].value
            base, part = alias[nm]
            if isinstance(dv, ast.Call):
                continue  # (6) handles ravel / reshape views
            examined += 1
            u = used_after(family(nm) - {nm}, n, getattr(n, "end_lineno", n.lineno))
            if u is None and base not in params:
                continue
            if isinstance(dv, ast.Name) and (arrayish(base) or arrayish(nm)):
                findings.append((n, "alias-updated", f"`{nm}` is the array `{base}` itself (`{_txt(d[-1])}` makes no copy): `{_txt(n)[:60]}` changes `{base}`, which is used "
                                 f"afterwards" + (f" (line {u.lineno})" if u is not None else " (the caller's array)")))
            elif isinstance(dv, ast.Subscript) and (any(isinstance(i_, ast.Slice) for i_ in (dv.slice.elts if isinstance(dv.slice, ast.Tuple) else [dv.slice]))
                                                    or any(isinstance(x, ast.Subscript) and isinstance(x.value, ast.Name) and x.value.id == base and isinstance(x.slice, ast.Tuple)
                                                           for x in nodes)
                                                    or any(isinstance(x, ast.Call) and isinstance(x.func, ast.Attribute) and x.func.attr in ("KDTree", "cKDTree") and x.args
                                                           and isinstance(x.args[0], ast.Name) and x.args[0].id == base for x in nodes)):
                # basic slicing, or one index into an array that is indexed with several elsewhere (a row of a 2-D array): a view, not a copy
                undecided.append((n, "view-updated", f"`{_txt(n)[:60]}` works on `{_txt(dv)[:40]}`, a view / alias of `{base}`: `{base}` changes with it and is used afterwards"))
    # (8b) element stores through a slice view of a buffer that lives longer than the view (allocated before the loop the view is taken in)
    for n in nodes:
        if isinstance(n, ast.Assign) and len(n.targets) == 1 and isinstance(n.targets[0], ast.Subscript) and isinstance(n.targets[0].value, ast.Name) \
                and n.targets[0].value.id in alias:
            nm = n.targets[0].value.id
            d = [a for a in assigns if a.targets[0].id == nm and a.lineno < n.lineno]
            if not d or not isinstance(d[-1].value, ast.Subscript):
                continue
            dv = d[-1].value
            if not any(isinstance(i_, ast.Slice) for i_ in (dv.slice.elts if isinstance(dv.slice, ast.Tuple) else [dv.slice])):
                continue
            base = alias[nm][0]
            bdefs = [a for a in assigns if a.targets[0].id == base]
            lp_v = [lp for lp in loops if lp.lineno <= d[-1].lineno <= getattr(lp, "end_lineno", lp.lineno)]
            if lp_v and bdefs and all(b.lineno < lp_v[0].lineno for b in bdefs):
                examined += 1
                undecided.append((n, "view-updated", f"`{_txt(n)[:60]}` stores through `{nm}`, a slice of `{base}`, which is allocated before the loop (line {bdefs[-1].lineno}) and "
                                  "keeps what every iteration writes: later iterations see the earlier ones' stores"))
    # (9) state kept on the object behind the attribute table (`self.__dict__`, setattr / vars): a cache the instance-attribute rules do not see
    for n in nodes:
        if (isinstance(n, ast.Attribute) and n.attr == "__dict__") or (isinstance(n, ast.Call) and isinstance(n.func, ast.Name) and n.func.id in ("setattr", "vars") and n.args):
            examined += 1
            undecided.append((n, "hidden-attribute", f"`{_txt(n)[:60]}`: state kept on an object through its attribute table; what a later call finds there is not followed"))
    return findings, undecided, examined


def mutating_params(fn):
    """names of parameters of fn that its own body updates in place (p.sort(), p[..] = .., p op= .., ufunc(.., out=p), p.append ..): direct sites only"""
    params = [a.arg for a in fn.args.posonlyargs + fn.args.args + fn.args.kwonlyargs]
    out = {}
    nodes = _own_nodes(fn)
    rebound = {n.id for n in nodes if isinstance(n, ast.Name) and isinstance(n.ctx, ast.Store)}
    for n in nodes:
        tgt = None
        if isinstance(n, ast.Call) and isinstance(n.func, ast.Attribute) and isinstance(n.func.value, ast.Name) \
                and n.func.attr in ("sort", "reverse", "partition", "fill", "append", "extend", "insert", "pop", "remove", "clear", "put", "resize", "update"):
            tgt, how = n.func.value.id, "." + n.func.attr + "()"
        elif isinstance(n, ast.Call):
            for k in n.keywords:
                if k.arg == "out" and isinstance(k.value, ast.Name):
                    tgt, how = k.value.id, "out="
        elif isinstance(n, ast.AugAssign) and isinstance(n.target, ast.Name):
            tgt, how = n.target.id, "augmented assignment"
        elif isinstance(n, (ast.Assign, ast.AugAssign)):
            for t in (n.targets if isinstance(n, ast.Assign) else [n.target]):
                if isinstance(t, ast.Subscript) and isinstance(t.value, ast.Name):
                    tgt, how = t.value.id, "element store"
        if tgt in params and (tgt not in rebound or how != "augmented assignment"):
            out.setdefault(tgt, how)
    return out
