"""Small def-use rules on the syntax tree (statement order + branch exclusivity).

stale_selectors: a row selector  M = <comparison over X[c]>  is used again after X[c] has been rewritten: the selector still
describes the rows as they were, so the later use picks / updates rows that no longer satisfy the test."""
from __future__ import annotations

import ast


def _txt(n):
    try:
        return " ".join(ast.unparse(n).split())
    except Exception:  # noqa
        return "<?>"


def _arms(parents, node, stop):
    """[(If node, arm)] enclosing `node` up to `stop`"""
    out = []
    ch, p = node, parents.get(node)
    while p is not None and ch is not stop:
        if isinstance(p, ast.If):
            arm = "body" if any(ch is x for x in p.body) else "orelse" if any(ch is x for x in p.orelse) else None
            if arm:
                out.append((id(p), arm))
        ch, p = p, parents.get(p)
    return out


def _exclusive(a, b):
    da = dict(a)
    return any(k in da and da[k] != arm for k, arm in b)


def _col_reads(expr):
    """(table text, column text) pairs read inside comparisons of `expr`"""
    out = set()
    for c in ast.walk(expr):
        if not isinstance(c, ast.Compare):
            continue
        for s in ast.walk(c):
            if isinstance(s, ast.Subscript) and isinstance(s.value, (ast.Name, ast.Attribute)) and not isinstance(s.slice, (ast.Slice, ast.Tuple)):
                base = s.value
                if isinstance(base, ast.Attribute) and base.attr in ("loc", "iloc"):
                    continue
                out.add((_txt(base), _txt(s.slice)))
    return out


def _col_writes(st):
    """(table text, column text) pairs written by statement `st`"""
    tgts = st.targets if isinstance(st, ast.Assign) else [st.target] if isinstance(st, (ast.AugAssign, ast.AnnAssign)) else []
    out = set()
    for t in tgts:
        if not isinstance(t, ast.Subscript):
            continue
        base = t.value
        if isinstance(base, ast.Attribute) and base.attr in ("loc", "iloc", "at", "iat"):
            tab = _txt(base.value)
            sl = t.slice
            if isinstance(sl, ast.Tuple) and len(sl.elts) == 2:
                col = sl.elts[1]
                if isinstance(col, ast.List):
                    for e in col.elts:
                        out.add((tab, _txt(e)))
                else:
                    out.add((tab, _txt(col)))
        elif isinstance(base, (ast.Name, ast.Attribute)) and not isinstance(t.slice, (ast.Slice, ast.Tuple)):
            if isinstance(t.slice, ast.List):
                for e in t.slice.elts:
                    out.add((_txt(base), _txt(e)))
            else:
                out.add((_txt(base), _txt(t.slice)))
    return out


def _is_mask(v):
    if isinstance(v, ast.Compare):
        return True
    if isinstance(v, ast.BinOp) and isinstance(v.op, (ast.BitAnd, ast.BitOr, ast.BitXor)):
        return _is_mask(v.left) and _is_mask(v.right)
    if isinstance(v, ast.UnaryOp) and isinstance(v.op, (ast.Invert, ast.Not)):
        return _is_mask(v.operand)
    if isinstance(v, ast.BoolOp):
        return all(_is_mask(x) for x in v.values)
    if isinstance(v, ast.Call) and isinstance(v.func, ast.Attribute) and v.func.attr in ("isin", "eq", "ne", "lt", "le", "gt", "ge", "between", "isna", "notna"):
        return True
    return False


def stale_selectors(module, fn):
    """-> [(def stmt, write stmt, use node, selector name, table, column)], count of selectors examined"""
    parents = module.parents
    stmts = [n for n in ast.walk(fn) if isinstance(n, ast.stmt) and n is not fn]
    stmts.sort(key=lambda n: (n.lineno, n.col_offset))
    found, examined = [], 0
    for d in stmts:
        if not (isinstance(d, ast.Assign) and len(d.targets) == 1 and isinstance(d.targets[0], ast.Name)):
            continue
        if not _is_mask(d.value):
            continue
        reads = _col_reads(d.value) | {(_txt(c.func.value.value), _txt(c.func.value.slice)) for c in ast.walk(d.value)
                                        if isinstance(c, ast.Call) and isinstance(c.func, ast.Attribute) and isinstance(c.func.value, ast.Subscript)
                                        and not isinstance(c.func.value.slice, (ast.Slice, ast.Tuple))}
        if not reads:
            continue
        name = d.targets[0].id
        examined += 1
        pos_d = (d.lineno, d.col_offset)
        # the selector is dead once the name is assigned again
        kills = [s for s in stmts if s is not d and isinstance(s, ast.Assign) and any(isinstance(t, ast.Name) and t.id == name for t in s.targets)
                 and (s.lineno, s.col_offset) > pos_d]
        end = min(((k.lineno, k.col_offset) for k in kills), default=(10 ** 9, 0))
        for w in stmts:
            pos_w = (w.lineno, w.col_offset)
            if not (pos_d < pos_w < end):
                continue
            hit = _col_writes(w) & reads
            if not hit:
                continue
            # the write itself may use the selector (df.loc[M, c] = ...): that use is fine, later ones are not
            for u in ast.walk(fn):
                if isinstance(u, ast.Name) and u.id == name and isinstance(u.ctx, ast.Load):
                    pos_u = (u.lineno, u.col_offset)
                    ust = u
                    while ust is not None and not isinstance(ust, ast.stmt):
                        ust = parents.get(ust)
                    if ust is None or ust is w or not (pos_w < pos_u < end):
                        continue
                    if _exclusive(_arms(parents, w, fn), _arms(parents, ust, fn)):
                        continue
                    tab, col = sorted(hit)[0]
                    found.append((d, w, ust, name, tab, col))
                    break
    return found, examined


def _is_empty_container(e):
    if isinstance(e, (ast.List, ast.Set, ast.Tuple)) and not e.elts:
        return True
    if isinstance(e, ast.Dict) and not e.keys:
        return True
    if isinstance(e, ast.Call) and not e.args and not e.keywords and isinstance(e.func, ast.Name) and e.func.id in ("list", "set", "dict", "tuple"):
        return True
    return False


def lost_accumulation(module, fn):
    """A result that is started as an empty container before a loop, *overwritten* (not extended) on every iteration from something that
    depends on the loop variable, and used after the loop: only the last iteration contributes.
    -> ([(init stmt, overwriting stmt, loop, name)], number of candidate accumulators examined)"""
    found, examined = [], 0
    parents = module.parents

    def block_of(st):
        p = parents.get(st)
        for fld in ("body", "orelse", "finalbody"):
            b = getattr(p, fld, None)
            if isinstance(b, list) and any(x is st for x in b):
                return b
        return None

    for loop in [n for n in ast.walk(fn) if isinstance(n, ast.For)]:
        blk = block_of(loop)
        if blk is None:
            continue
        k = next(i for i, x in enumerate(blk) if x is loop)
        inits = {}
        for st in blk[:k]:
            if isinstance(st, ast.Assign) and len(st.targets) == 1 and isinstance(st.targets[0], ast.Name) and _is_empty_container(st.value):
                inits[st.targets[0].id] = st
            elif isinstance(st, ast.Assign):
                for t in st.targets:
                    if isinstance(t, ast.Name):
                        inits.pop(t.id, None)
        if not inits:
            continue
        loop_vars = {x.id for x in ast.walk(loop.target) if isinstance(x, ast.Name)}
        has_break = any(isinstance(x, ast.Break) for x in ast.walk(loop))
        for name, init in inits.items():
            examined += 1
            body_nodes = [x for st in loop.body for x in ast.walk(st)]
            stores = [st for st in loop.body if isinstance(st, ast.Assign) and any(isinstance(t, ast.Name) and t.id == name for t in st.targets)]
            if len(stores) != 1 or has_break:
                continue
            st = stores[0]
            rhs_names = {x.id for x in ast.walk(st.value) if isinstance(x, ast.Name)}
            if name in rhs_names or not (rhs_names & loop_vars):
                continue  # accumulates (x = x + ..) or does not depend on the iteration
            other_uses = [x for x in body_nodes if isinstance(x, ast.Name) and x.id == name and not any(x is t for t in st.targets)]
            if other_uses:
                continue  # used / extended inside the loop: a per-iteration temporary
            after = [x for s2 in blk[k + 1:] for x in ast.walk(s2) if isinstance(x, ast.Name) and x.id == name and isinstance(x.ctx, ast.Load)]
            if after:
                found.append((init, st, loop, name))
    return found, examined


def python_bool_inverted(module, fn, call_is_bool=None):
    """`~flag` where `flag` is a plain Python bool (every assignment to it in the function is True / False / a `not` / an `and`-`or` of such):
    the operator is the integer complement (~True == -2, ~False == -1), both of which are true in a test -- unlike `~` on a numpy
    boolean, which the surrounding array code uses for 'not'.  -> [(use node, name)], number of flags examined"""
    assigned = {}
    for st in ast.walk(fn):
        tgts = []
        if isinstance(st, ast.Assign):
            tgts = [(t, st.value) for t in st.targets]
        elif isinstance(st, ast.AnnAssign) and st.value is not None:
            tgts = [(st.target, st.value)]
        elif isinstance(st, (ast.AugAssign, ast.For, ast.With, ast.NamedExpr)):
            t = getattr(st, "target", None)
            if isinstance(t, ast.Name):
                assigned.setdefault(t.id, []).append(None)
        for t, v in tgts:
            for x in ast.walk(t):
                if isinstance(x, ast.Name):
                    assigned.setdefault(x.id, []).append(v if isinstance(t, ast.Name) else None)
    params = {a.arg for a in fn.args.posonlyargs + fn.args.args + fn.args.kwonlyargs}

    def plain(v, depth=0):
        if isinstance(v, ast.Constant):
            return isinstance(v.value, bool)
        if isinstance(v, ast.UnaryOp) and isinstance(v.op, ast.Not):
            return True  # `not x` is always a Python bool
        if isinstance(v, ast.BoolOp):
            return all(plain(x, depth + 1) for x in v.values)
        if isinstance(v, ast.Name) and depth < 3 and v.id in flags_:
            return True
        if isinstance(v, ast.Call) and call_is_bool is not None and call_is_bool(v):
            return True  # a repository function all of whose returns are True / False
        return False

    flags_ = set()
    for _ in range(3):
        for name, vals in assigned.items():
            if name not in params and vals and all(v is not None and plain(v) for v in vals):
                flags_.add(name)
    found = []
    for n in ast.walk(fn):
        if isinstance(n, ast.UnaryOp) and isinstance(n.op, ast.Invert) and isinstance(n.operand, ast.Name) and n.operand.id in flags_:
            found.append((n, n.operand.id))
    return found, len(flags_)


# ------------------------------------------------------------------------------------------------ positions as truth values
_POS_METHODS = ("index", "find", "rfind")
_POS_NUMPY = ("argmax", "argmin", "nanargmax", "nanargmin", "searchsorted")


def is_position_expr(e):
    """an expression whose value is a position (0 = the first one): seq.index(x), s.find(x), np.argmax(a), a.argmax()"""
    if isinstance(e, ast.Call) and isinstance(e.func, ast.Attribute):
        if e.func.attr in _POS_METHODS and len(e.args) >= 1:
            return True
        if e.func.attr in _POS_NUMPY:
            return True
    return False


def returns_position(fn):
    """every `return` of fn gives a position or None, and at least one gives a position"""
    rets = [r.value for r in ast.walk(fn) if isinstance(r, ast.Return)]
    nested = {id(x) for n in ast.walk(fn) if isinstance(n, (ast.FunctionDef, ast.Lambda)) and n is not fn for x in ast.walk(n)}
    rets = [r for r in rets if id(r) not in nested]
    if not rets:
        return False
    pos = 0
    for r in rets:
        if r is None or (isinstance(r, ast.Constant) and r.value is None):
            continue
        if is_position_expr(r):
            pos += 1
            continue
        if isinstance(r, ast.Name):
            # a local holding a position: every assignment to it is a position expression
            asg = [a.value for a in ast.walk(fn) if isinstance(a, ast.Assign) and any(isinstance(t, ast.Name) and t.id == r.id for t in a.targets)]
            if asg and all(is_position_expr(a) or (isinstance(a, ast.Constant) and a.value is None) for a in asg) and any(is_position_expr(a) for a in asg):
                pos += 1
                continue
        return False
    return pos > 0


def positions_as_truth(module, fn, call_gives_position):
    """-> ([(use node, description)], examined): a position (of a found element: 0 is the first one, "not found" is None / an exception)
    used as a truth value -- `if pos:`, `pos and ...`, `not pos`, `x if pos else y`, `if (pos := f()):`"""
    found, examined = [], 0
    nested = {id(x) for n in ast.walk(fn) if isinstance(n, (ast.FunctionDef, ast.Lambda)) and n is not fn for x in ast.walk(n)}

    def gives(e):
        if isinstance(e, ast.NamedExpr):
            return gives(e.value)
        return is_position_expr(e) or (isinstance(e, ast.Call) and call_gives_position(e))

    holders = {}
    for a in ast.walk(fn):
        if id(a) in nested:
            continue
        if isinstance(a, ast.Assign) and len(a.targets) == 1 and isinstance(a.targets[0], ast.Name):
            holders.setdefault(a.targets[0].id, []).append(a.value)
        elif isinstance(a, ast.NamedExpr) and isinstance(a.target, ast.Name):
            holders.setdefault(a.target.id, []).append(a.value)
        elif isinstance(a, (ast.AugAssign, ast.For)) and isinstance(getattr(a, "target", None), ast.Name):
            holders.setdefault(a.target.id, []).append(None)
    pos_names = {n for n, vals in holders.items() if vals and all(v is not None and (gives(v) or (isinstance(v, ast.Constant) and v.value is None)) for v in vals)
                 and any(v is not None and gives(v) for v in vals)}

    def truth_operands(n):
        if isinstance(n, (ast.If, ast.While, ast.IfExp)):
            yield n.test
        elif isinstance(n, ast.BoolOp):
            for v in n.values[:-1]:
                yield v
            par = module.parents.get(n)
            if isinstance(par, (ast.If, ast.While, ast.IfExp)) and par.test is n:
                yield n.values[-1]
        elif isinstance(n, ast.UnaryOp) and isinstance(n.op, ast.Not):
            yield n.operand
        elif isinstance(n, ast.comprehension):
            for c in n.ifs:
                yield c

    for n in ast.walk(fn):
        if id(n) in nested:
            continue
        for t in truth_operands(n):
            while isinstance(t, ast.UnaryOp) and isinstance(t.op, ast.Not):
                t = t.operand
            if isinstance(t, ast.BoolOp):
                continue  # its operands are visited on their own
            if isinstance(t, ast.Name) and t.id in pos_names:
                examined += 1
                found.append((t, t.id))
            elif gives(t):
                examined += 1
                found.append((t, "the result of " + " ".join(ast.unparse(t).split())[:50]))
    examined += len(pos_names)
    return found, examined
