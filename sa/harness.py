"""helpers shared by the specs: symbolic inputs, assume-configurations, term queries"""
from __future__ import annotations

import ast

from . import terms as tm
from .terms import T, const, sym, call, mk
from .values import (Val, Arr, Frame, Rot, Seq, DictV, Obj, Func, ClassRef, Ref, Unk, Space, K, pyval, is_pyconst,
                     to_term, NotConst, Unsupported)
from .interp import Interp

MOTL_COLS = ["score", "geom1", "geom2", "subtomo_id", "tomo_id", "object_id", "subtomo_mean", "x", "y", "z",
             "shift_x", "shift_y", "shift_z", "geom3", "geom4", "geom5", "phi", "psi", "theta", "class"]


def motl_frame(prog, name="df", prefix="", ordered=True, cols=None):
    """a symbolic particle table: every column a free symbol.  `ordered=False` models a table whose column order is
    not the canonical one (the constructor accepts any order)"""
    names = cols or list(prog.class_attr("cryomotl.Motl", "motl_columns"))
    f = Frame({c: sym(prefix + c) for c in names}, list(names) if ordered else None, prefix=prefix, name=name)
    f.space = Space(name, how="root")
    f.labels_positional = False
    return f


def motl_obj(prog, cls="cryomotl.Motl", **kw):
    return Obj(cls, {"df": motl_frame(prog, **kw)})


def typed(v, kind):
    """say what kind of Python value a symbolic argument is ('ndarray', 'list', 'str', 'path', 'DataFrame', ...): isinstance tests on it
    are then decided wherever the value travels (see libcalls.isinstance_)"""
    v.pykind = kind
    return v


def P(name, space=None):
    """a symbolic parameter: a value the caller passes (so it is not None -- `if p is None: p = <default>` keeps it)"""
    v = Val(sym(name), space=space)
    v.given = True
    return v


_FLIP = {ast.Gt: ast.Lt, ast.GtE: ast.LtE}


class _Canon(ast.NodeTransformer):
    """canonical orientation of comparisons (a > b -> b < a) so that mirrored tests compare equal"""

    def visit_Compare(self, node):
        self.generic_visit(node)
        if len(node.ops) == 1 and type(node.ops[0]) in _FLIP:
            return ast.Compare(left=node.comparators[0], ops=[_FLIP[type(node.ops[0])]()], comparators=[node.left])
        return node


def _canon_expr(src_or_node):
    node = ast.parse(src_or_node, mode="eval").body if isinstance(src_or_node, str) else src_or_node
    import copy as _copy
    return _Canon().visit(_copy.deepcopy(node))


_STD_ALIASES = {"np": "numpy", "pd": "pandas"}


def _alpha_match(key_node, test_node, renameable, mapping, aliases=None):
    """structural equality of two expressions up to a consistent renaming of function-local variable names"""
    if type(key_node) is not type(test_node):
        return False
    if isinstance(key_node, ast.Name):
        if key_node.id == test_node.id:
            return True
        if aliases and key_node.id in _STD_ALIASES and aliases.get(test_node.id) == _STD_ALIASES[key_node.id]:
            return True  # the same library under another import alias
        if test_node.id in renameable:
            if key_node.id in mapping:
                return mapping[key_node.id] == test_node.id
            if test_node.id in mapping.values():
                return False
            mapping[key_node.id] = test_node.id
            return True
        return False
    for f_ in key_node._fields:
        a_, b_ = getattr(key_node, f_, None), getattr(test_node, f_, None)
        if f_ in ("ctx", "lineno", "col_offset", "end_lineno", "end_col_offset", "kind"):
            continue
        if isinstance(a_, list):
            if not isinstance(b_, list) or len(a_) != len(b_):
                return False
            for x, y in zip(a_, b_):
                if isinstance(x, ast.AST):
                    if not _alpha_match(x, y, renameable, mapping, aliases):
                        return False
                elif x != y:
                    return False
        elif isinstance(a_, ast.AST):
            if not isinstance(b_, ast.AST) or not _alpha_match(a_, b_, renameable, mapping, aliases):
                return False
        elif a_ != b_:
            return False
    return True


def assume_map(mapping, prog=None):
    """configuration of an obligation: truth values for branch tests, keyed by the test's source text as it reads today.
    Matching is robust to mirrored comparisons (a > b vs b < a) and to a consistent renaming of the function's local
    variables (names assigned inside the function; parameters and globals must match exactly)."""
    _COMPLEMENT = {ast.IsNot: ast.Is, ast.NotEq: ast.Eq, ast.NotIn: ast.In}

    def strip_not(n):
        """the test with its negations removed, and their parity: `not c`, `a is not b`, `a != b`, `a not in b` are the negations of
        `c`, `a is b`, `a == b`, `a in b`"""
        par = False
        while True:
            if isinstance(n, ast.UnaryOp) and isinstance(n.op, ast.Not):
                n, par = n.operand, not par
            elif isinstance(n, ast.Compare) and len(n.ops) == 1 and type(n.ops[0]) in _COMPLEMENT:
                n = ast.Compare(left=n.left, ops=[_COMPLEMENT[type(n.ops[0])]()], comparators=n.comparators)
                par = not par
            else:
                return n, par

    keys = []
    for k, v in mapping.items():
        fnq, text = (k if isinstance(k, tuple) else (None, k))
        try:
            kn, kpar = strip_not(_canon_expr(text))
            keys.append((fnq, text, kn, v, kpar, " ".join(ast.unparse(kn).split())))
        except SyntaxError:
            keys.append((fnq, text, None, v, False, text))
    locals_cache, rename_cache = {}, {}
    used = set()

    def locals_of(fr_fn, module, node):
        if fr_fn not in locals_cache:
            names = set()
            try:
                q = fr_fn
                defs = module.defs
                fnode = defs.get(q.split(".", 1)[1]) if "." in q else None
                if fnode is not None:
                    params = {a.arg for a in fnode.args.posonlyargs + fnode.args.args + fnode.args.kwonlyargs}
                    for n in ast.walk(fnode):
                        if isinstance(n, ast.Name) and isinstance(n.ctx, ast.Store) and n.id not in params:
                            names.add(n.id)
            except Exception:  # noqa
                pass
            locals_cache[fr_fn] = names
        return locals_cache[fr_fn]

    def f(fn, node, av, module=None):
        try:
            key = " ".join(ast.unparse(node).split())
        except Exception:  # noqa
            return None
        for fnq, text, knode, v, kpar, ktext in keys:
            if fnq is not None and fnq != fn:
                continue
            if text == key:
                used.add(text)
                return v
        # the same test under a negation (if not c: B else: A) is the same decision
        node, tpar = strip_not(node)
        try:
            key = " ".join(ast.unparse(node).split())
        except Exception:  # noqa
            return None
        for fnq, text, knode, v, kpar, ktext in keys:
            if fnq is not None and fnq != fn:
                continue
            if ktext == key and isinstance(v, bool):
                used.add(text)
                return v != (kpar != tpar)
        if module is None:
            return None
        try:
            tnode = _canon_expr(node)
        except Exception:  # noqa
            return None
        ren = locals_of(fn, module, node)
        for fnq, text, knode, v, kpar, ktext in keys:
            if knode is None or (fnq is not None and fnq != fn):
                continue
            if isinstance(knode, ast.Name) or (isinstance(knode, ast.UnaryOp) and isinstance(knode.operand, ast.Name)):
                continue  # a bare flag: parameters are matched by exact text only
            m_ = dict(rename_cache.get(fn, {}))
            if _alpha_match(knode, tnode, ren, m_, getattr(module, "aliases", None)):
                rename_cache[fn] = m_
                used.add(text)
                return (v != (kpar != tpar)) if isinstance(v, bool) else v
        # the configuration says what kind of value a parameter holds (`isinstance(x, np.ndarray)`: True): a further type test on the
        # same parameter for a kind that excludes it is decided too (an array is not a path, a list, a table, ...)
        if isinstance(node, ast.Call) and isinstance(node.func, ast.Name) and node.func.id == "isinstance" and len(node.args) == 2 \
                and isinstance(node.args[0], ast.Name):
            asked = _kinds_of(node.args[1])
            if asked is not None:
                for fnq, text, knode, v, kpar, ktext in keys:
                    if v is not True or kpar or not (isinstance(knode, ast.Call) and isinstance(knode.func, ast.Name) and knode.func.id == "isinstance"
                                                     and len(knode.args) == 2 and isinstance(knode.args[0], ast.Name) and knode.args[0].id == node.args[0].id):
                        continue
                    if fnq is not None and fnq != fn:
                        continue
                    have = _kinds_of(knode.args[1])
                    if have is not None and len(have) == 1 and not (asked & have) and not (asked & {"object"}):
                        r_ = False
                        return r_ != tpar
        return None

    f.used = used
    f.keys = [k[1] for k in keys]
    return f


_DISJOINT_KINDS = {"ndarray": "ndarray", "list": "list", "tuple": "tuple", "str": "str", "PathLike": "path", "Path": "path", "PurePath": "path", "DataFrame": "DataFrame",
                   "Series": "Series", "Index": "Index", "dict": "dict", "range": "range", "bytes": "bytes", "set": "set"}


def _kinds_of(n):
    """the mutually exclusive value kinds named in the class argument of an isinstance test; None when a class outside the table is named"""
    out = set()
    for c in (n.elts if isinstance(n, ast.Tuple) else [n]):
        nm = c.attr if isinstance(c, ast.Attribute) else c.id if isinstance(c, ast.Name) else None
        if nm not in _DISJOINT_KINDS:
            return None
        out.add(_DISJOINT_KINDS[nm])
    return out


def col(frame, name):
    return frame.cols[name]


def eq(a, b, **kw):
    return tm.equivalent(a, b, **kw)


def pos_sampler(lo=0.1, hi=10.0):
    return lambda rng: float(rng.uniform(lo, hi))


def int_sampler(lo, hi):
    return lambda rng: float(rng.integers(lo, hi + 1))


def choice_sampler(values):
    return lambda rng: float(values[int(rng.integers(0, len(values)))])


def half_integer_sampler(lo=-20, hi=20):
    def f(rng):
        k = rng.integers(0, 4)
        base = float(rng.integers(lo, hi + 1))
        if k == 0:
            return base + 0.5
        if k == 1:
            return base
        return float(rng.uniform(lo, hi))

    return f


def empty_test_polarity(node):
    """`node` as a test for "this array / list has no elements", in any of the usual spellings:
         x.size == 0, len(x) == 0, x.shape[0] == 0, not x.size, not len(x), x.size < 1, len(x) > 0, x.size != 0, x.size, len(x) ...
       -> True: the expression is true exactly when the container is empty; False: true exactly when it is not; None: not such a test"""
    n_, neg = node, False
    while isinstance(n_, ast.UnaryOp) and isinstance(n_.op, ast.Not):
        n_, neg = n_.operand, not neg

    def counted(e):
        if isinstance(e, ast.Attribute) and e.attr == "size":
            return True
        if isinstance(e, ast.Call) and isinstance(e.func, ast.Name) and e.func.id == "len" and len(e.args) == 1:
            return True
        if isinstance(e, ast.Subscript) and isinstance(e.value, ast.Attribute) and e.value.attr == "shape" and isinstance(e.slice, ast.Constant) and e.slice.value == 0:
            return True
        return False

    res = None
    if counted(n_):
        res = False
    elif isinstance(n_, ast.Compare) and len(n_.ops) == 1 and isinstance(n_.comparators[0], ast.Constant) and counted(n_.left):
        c, op = n_.comparators[0].value, n_.ops[0]
        if c == 0 and isinstance(op, ast.Eq):
            res = True
        elif c == 0 and isinstance(op, (ast.NotEq, ast.Gt)):
            res = False
        elif c == 1 and isinstance(op, ast.Lt):
            res = True
        elif c == 1 and isinstance(op, ast.GtE):
            res = False
        elif c == 0 and isinstance(op, ast.LtE):
            res = True
    if res is None:
        return None
    return res != neg
