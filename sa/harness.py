"""helpers shared by the specs: symbolic inputs, assume-configurations, term queries"""
from __future__ import annotations

import ast

from . import terms as tm
from .terms import T, const, sym, call, mk
from .values import (Val, Arr, Frame, Rot, Seq, DictV, Obj, Func, ClassRef, Ref, Unk, Space, K, pyval, is_pyconst,
                     to_term, NotConst, Unsupported)
from .interp import Interp

MOTL_COLS = ["score", "geom1", "geom2", "subtomo_id", "tomo_id", "object_id", "subtomo_mean", "x", "y", "z",
             "shift_x", "shift_y", "shift_z", "geom3", "geom4", "geom5", "phi", "psi", "theta", "class"]


def motl_frame(prog, name="df", prefix="", ordered=True, cols=None):
    """a symbolic particle table: every column a free symbol.  `ordered=False` models a table whose column order is
    not the canonical one (the constructor accepts any order)"""
    names = cols or list(prog.class_attr("cryomotl.Motl", "motl_columns"))
    f = Frame({c: sym(prefix + c) for c in names}, list(names) if ordered else None, prefix=prefix, name=name)
    f.space = Space(name, how="root")
    f.labels_positional = False
    return f


def motl_obj(prog, cls="cryomotl.Motl", **kw):
    return Obj(cls, {"df": motl_frame(prog, **kw)})


def P(name, space=None):
    """a symbolic parameter"""
    return Val(sym(name), space=space)


def assume_map(mapping):
    """assume callback from {normalised test source: bool}; matching is on the unparsed test expression"""

    def f(fn, node, av):
        try:
            key = " ".join(ast.unparse(node).split())
        except Exception:  # noqa
            return None
        if key in mapping:
            return mapping[key]
        if (fn, key) in mapping:
            return mapping[(fn, key)]
        return None

    return f


def col(frame, name):
    return frame.cols[name]


def eq(a, b, **kw):
    return tm.equivalent(a, b, **kw)


def pos_sampler(lo=0.1, hi=10.0):
    return lambda rng: float(rng.uniform(lo, hi))


def int_sampler(lo, hi):
    return lambda rng: float(rng.integers(lo, hi + 1))


def choice_sampler(values):
    return lambda rng: float(values[int(rng.integers(0, len(values)))])


def half_integer_sampler(lo=-20, hi=20):
    def f(rng):
        k = rng.integers(0, 4)
        base = float(rng.integers(lo, hi + 1))
        if k == 0:
            return base + 0.5
        if k == 1:
            return base
        return float(rng.uniform(lo, hi))

    return f
