"""Literal-input mode of the interpreter (constant propagation through loops).

The engine's interpreter folds constants: a function called with a literal argument whose control flow depends on that argument only
is followed along exactly one path.  Text-handling code (the STAR tokenizer and its recursive-descent parser) is of this kind -- what
it does for a given text is fully determined by the source -- but it is written with `while` loops and exceptions, which the general
interpreter abstracts (one pass over the loop body, raise = dead path).  This mode follows them literally:

  * `while c:`  is unrolled as long as `c` is a known constant (bounded; an undecided condition is Unsupported, never a guess)
  * a `for` over a literal sequence is unrolled without the general bound
  * an `if` whose test is not a known constant is Unsupported
  * a `raise` reached on the followed path ends the interpretation: `Raised` carries the statement
  * `open(path)` for a path listed in `files` yields a text file whose .read() / .readlines() / iteration give the listed text

Nothing is executed: the repository's functions are read as syntax trees, library calls go through the engine's models.  What the
obligations conclude from a run is a statement about the listed probe texts only; they choose the probes so that every character
class and token position the code distinguishes is covered (see spec/starsem.py)."""
from __future__ import annotations

import ast

from . import interp as _interp
from .interp import Interp, Flow
from .values import Unsupported, Unk, Seq, Obj, DictV
from .terms import call, const
from .harness import K

MAX_STEPS = 20000


class Raised(Exception):
    def __init__(self, node, fn):
        self.node, self.fn = node, fn
        super().__init__(f"raise at line {getattr(node, 'lineno', '?')} of {fn}")


class LiteralInterp(Interp):
    literal = True

    def __init__(self, prog, files=None, **kw):
        summ = dict(kw.pop("summaries", None) or {})
        self.files = dict(files or {})
        summ.setdefault("builtins.open", self._open)
        kw.setdefault("max_depth", 40)  # a recursive-descent parser is deep by construction; the step bound ends a runaway
        super().__init__(prog, summaries=summ, **kw)
        self._steps = 0

    # ---------------------------------------------------------------- files
    def _open(self, it, args, kwargs, node, fr):
        from .values import is_pyconst, pyval
        p = args[0] if args else kwargs.get("file")
        if p is None or not is_pyconst(p) or pyval(p) not in self.files:
            raise Unsupported("open() of a file the obligation does not list", node)
        mode = args[1] if len(args) > 1 else kwargs.get("mode")
        if mode is not None and (not is_pyconst(mode) or any(ch in str(pyval(mode)) for ch in "wa+xb")):
            raise Unsupported("open() for writing / in binary mode on a listed text file", node)
        u = Unk(call("open", const(pyval(p))))
        u.file_text = self.files[pyval(p)]
        u.file_pos = 0
        return u

    def call_func(self, f, args, kwargs, node):
        vals = list(args) + list(kwargs.values())
        from .values import is_pyconst, Val, Frame, Arr
        if vals and all(isinstance(v, (Val, Frame, Arr)) and not is_pyconst(v) and getattr(v, "file_text", None) is None for v in vals):
            # a function applied to values that are not literal (a library object built from the text) is not followed
            from .values import to_term
            return Unk(call("applied:" + f.qual, *[to_term(v) for v in vals]), why="not followed in literal mode")
        return super().call_func(f, args, kwargs, node)

    # ---------------------------------------------------------------- control flow
    def tick(self, node):
        self._steps += 1
        if self._steps > MAX_STEPS:
            raise Unsupported("literal interpretation exceeds its step bound", node)

    def truth(self, av, node, fr):
        t = super().truth(av, node, fr)
        if t is None and isinstance(av, Obj) and not any(self.prog.find_method(av.cls, m_) for m_ in ("__bool__", "__len__")):
            return True  # an instance of a class without __bool__ / __len__ is true
        if t is None and isinstance(av, (Seq, DictV)) and not getattr(av, "accumulated", False):
            return len(av.items) > 0
        return t

    def e_UnaryOp(self, node, fr):
        if isinstance(node.op, ast.Not):
            v = self.eval(node.operand, fr)
            t = self.truth(v, node.operand, fr)
            if t is not None:
                return K(not t)
            raise Unsupported(f"a negated test is not decided by the literal input ({v!r:.80})", node)
        return super().e_UnaryOp(node, fr)

    def e_BoolOp(self, node, fr):
        # short-circuit evaluation, literally
        last = None
        for v_ in node.values:
            last = self.eval(v_, fr)
            t = self.truth(last, v_, fr)
            if t is None:
                raise Unsupported("an operand of and/or is not decided by the literal input", v_)
            if isinstance(node.op, ast.And) and not t:
                return last
            if isinstance(node.op, ast.Or) and t:
                return last
        return last

    def exec_if(self, st, fr):
        cond = self.eval(st.test, fr)
        t = self.truth(cond, st.test, fr)
        if t is None:
            raise Unsupported("a test is not decided by the literal input", st.test)
        self.tick(st)
        return self.exec_block(st.body if t else st.orelse, fr)

    def exec_while(self, st, fr):
        while True:
            self.tick(st)
            t = self.truth(self.eval(st.test, fr), st.test, fr)
            if t is None:
                raise Unsupported("a loop condition is not decided by the literal input", st.test)
            if not t:
                if st.orelse:
                    return self.exec_block(st.orelse, fr)
                return Flow.NORMAL
            flow = self.exec_block(st.body, fr)
            if flow == Flow.BREAK:
                return Flow.NORMAL
            if flow in (Flow.RETURN, Flow.RAISE):
                return flow

    def exec_for(self, st, fr):
        it = self.eval(st.iter, fr)
        items = self.iter_items(it)
        if items is None:
            raise Unsupported("iteration over a value that is not a literal sequence", st.iter)
        for item in items:
            self.tick(st)
            self.assign(st.target, item, fr, st)
            flow = self.exec_block(st.body, fr)
            if flow == Flow.BREAK:
                return Flow.NORMAL
            if flow in (Flow.RETURN, Flow.RAISE):
                return flow
        if st.orelse:
            return self.exec_block(st.orelse, fr)
        return Flow.NORMAL

    def iter_items(self, it):
        if getattr(it, "file_text", None) is not None:
            return [K(x) for x in it.file_text.splitlines(keepends=True)]
        return super().iter_items(it)

    def exec_stmt(self, st, fr):
        if isinstance(st, ast.Raise):
            raise Raised(st, fr.fn)
        if isinstance(st, ast.Try) and st.handlers:
            try:
                return super().exec_stmt(st, fr)
            except Raised as e:
                raise Unsupported("an exception raised on the followed path is caught by a handler: not followed", e.node)
        return super().exec_stmt(st, fr)


def file_method(it, recv, name, args, node):
    """methods of a listed text file"""
    text = recv.file_text
    if name == "read" and not args:
        out = text[recv.file_pos:]
        recv.file_pos = len(text)
        return K(out)
    if name == "readlines" and not args:
        out = text[recv.file_pos:].splitlines(keepends=True)
        recv.file_pos = len(text)
        return Seq([K(x) for x in out], "list")
    if name == "readline" and not args:
        rest = text[recv.file_pos:]
        ln = rest.splitlines(keepends=True)[0] if rest else ""
        recv.file_pos += len(ln)
        return K(ln)
    if name in ("close", "__enter__", "__exit__"):
        return K(None)
    raise Unsupported(f"method .{name} of a text file", node)
