"""E20 -- option plumbing and defaults (syntax tree + resolved callees).

A public function of this code base is very often a thin wrapper: it takes options, builds an object and hands the options on
(`emmotl2relion(..., pixel_size, binning)` -> `RelionMotl(df, version=..., pixel_size=..., binning=...)`).  Three things go wrong
there without any test noticing, because the fixtures use the default values or equal values for both options:

  P1  crossed wires   a parameter of the caller is bound to a *different* parameter of the callee although the callee has a
                      parameter of the caller's own name (or the caller a parameter of the callee's name): `f(a, b)` for `def f(b, a)`,
                      `TiltStack(tilt_stack, output_order, input_order)`
  P2  dropped option  caller and callee both have a parameter `p`, the callee's has a default, and the call does not pass it: the
                      caller's option silently has no effect.  Call sites that do this on purpose today are the confirmed
                      baseline (spec/plumbing_baseline.py)
  D   defaults        the default value of an option is part of what a plain call does; the defaults of the property's functions
                      are compared with the confirmed table (spec/defaults_baseline.py)

Callees are resolved through the module's imports, `self.` / `cls.` through the class hierarchy, and `var.method(...)` through the
class `var` was constructed from in the same function (`var = Cls(...)` / `var = Cls.load(...)`)."""
from __future__ import annotations

import ast

from .srcmodel import AnchorMissing, PKG


def params_of(fn, drop_self=False):
    a = fn.args
    names = [x.arg for x in a.posonlyargs + a.args]
    if drop_self and names and names[0] in ("self", "cls"):
        names = names[1:]
    return names, [x.arg for x in a.kwonlyargs]


def defaults_of(fn):
    """param -> source text of its default (constants only: bool / number / str / None / negative numbers)"""
    a = fn.args
    pos = a.posonlyargs + a.args
    out = {}
    for p, d in zip(pos[len(pos) - len(a.defaults):], a.defaults):
        out[p.arg] = d
    for p, d in zip(a.kwonlyargs, a.kw_defaults):
        if d is not None:
            out[p.arg] = d
    res = {}
    for k, d in out.items():
        if isinstance(d, ast.Constant) or (isinstance(d, ast.UnaryOp) and isinstance(d.operand, ast.Constant)):
            res[k] = " ".join(ast.unparse(d).split())
        else:
            res[k] = None  # present, but not a literal (not compared)
    return res


class Resolver:
    def __init__(self, prog):
        self.prog = prog

    def _local_types(self, q, m, fn):
        """name -> class qualname for `name = Cls(...)`, `name = Cls.load(...)`, `name = cls(...)` inside fn"""
        owner = self.prog.enclosing_class(q)
        types = {}
        for st in ast.walk(fn):
            if not (isinstance(st, ast.Assign) and len(st.targets) == 1 and isinstance(st.targets[0], ast.Name) and isinstance(st.value, ast.Call)):
                continue
            f = st.value.func
            cq = None
            d = self.prog.resolve(m, f)
            if d and d.startswith(PKG + "."):
                cand = d[len(PKG) + 1:]
                if self._is_class(cand):
                    cq = cand
                else:
                    head = cand.rsplit(".", 1)[0]
                    if self._is_class(head) and cand.rsplit(".", 1)[1] in ("load",):
                        cq = head
            elif isinstance(f, ast.Name) and f.id == "cls" and owner:
                cq = owner
            if cq is not None:
                if st.targets[0].id in types and types[st.targets[0].id] != cq:
                    types[st.targets[0].id] = None  # assigned from two classes: unknown
                else:
                    types[st.targets[0].id] = cq
        return {k: v for k, v in types.items() if v}

    def _is_class(self, q):
        try:
            self.prog.cls(q)
            return True
        except AnchorMissing:
            return False

    def callee(self, q, m, fn, call, types):
        """-> (callee qualname, drop_self) or None"""
        f = call.func
        d = self.prog.resolve(m, f)
        if d and d.startswith(PKG + "."):
            cand = d[len(PKG) + 1:]
            if self._is_class(cand):
                init = self.prog.find_method(cand, "__init__")
                return (init, True) if init else None
            if self.prog.has(cand):
                return cand, self._is_method(cand)
            bits = cand.split(".")
            if len(bits) >= 3 and self._is_class(".".join(bits[:-1])):
                t = self.prog.find_method(".".join(bits[:-1]), bits[-1])
                if t:
                    return t, self._bound_through_class(t)
        owner = self.prog.enclosing_class(q)
        if isinstance(f, ast.Attribute) and isinstance(f.value, ast.Name):
            if f.value.id in ("self", "cls") and owner:
                t = self.prog.find_method(owner, f.attr)
                if t:
                    return t, self._is_method(t)
            if f.value.id in types:
                t = self.prog.find_method(types[f.value.id], f.attr)
                if t:
                    return t, self._is_method(t)
        if isinstance(f, ast.Name) and f.id == "cls" and owner:
            init = self.prog.find_method(owner, "__init__")
            return (init, True) if init else None
        return None

    def _decorators(self, t):
        _, n = self.prog.func(t)
        return {ast.unparse(d) for d in n.decorator_list}

    def _is_method(self, t):
        """does a bound call drop the first parameter?"""
        if self.prog.enclosing_class(t) is None:
            return False
        return "staticmethod" not in self._decorators(t)

    def _bound_through_class(self, t):
        # Cls.method(...) : classmethods drop cls, plain methods called through the class do not
        return "classmethod" in self._decorators(t)


def bind_call(call, callee_fn, drop_self):
    """callee parameter -> argument node (only what can be decided syntactically; *args / **kwargs end the positional binding)"""
    pos, kwonly = params_of(callee_fn, drop_self)
    out = {}
    for i, a in enumerate(call.args):
        if isinstance(a, ast.Starred) or i >= len(pos):
            break
        out[pos[i]] = a
    star_kw = False
    for k in call.keywords:
        if k.arg is None:
            star_kw = True
            continue
        out[k.arg] = k.value
    return out, pos + kwonly, star_kw


def analyse(prog, quals):
    """-> (crossed, dropped, sites): lists of dicts for the functions `quals`"""
    rs = Resolver(prog)
    crossed, dropped, sites = [], [], 0
    for q in quals:
        try:
            m, fn = prog.func(q)
        except AnchorMissing:
            continue
        cpos, ckw = params_of(fn, drop_self=False)
        cparams = [p for p in cpos + ckw if p not in ("self", "cls")]
        if not cparams:
            continue
        types = rs._local_types(q, m, fn)
        # parameters rebound inside the function are no longer "the caller's option as given"
        rebound = {t.id for st in ast.walk(fn) if isinstance(st, (ast.Assign, ast.AugAssign, ast.AnnAssign))
                   for t in (st.targets if isinstance(st, ast.Assign) else [st.target]) if isinstance(t, ast.Name)}
        nested = {id(x) for n in ast.walk(fn) if isinstance(n, (ast.FunctionDef, ast.Lambda)) and n is not fn for x in ast.walk(n)}
        for call in ast.walk(fn):
            if not isinstance(call, ast.Call) or id(call) in nested:
                continue
            r = rs.callee(q, m, fn, call, types)
            if r is None or r[0] == q:
                continue
            t, drop = r
            try:
                tm_, tfn = prog.func(t)
            except AnchorMissing:
                continue
            bound, tparams, star_kw = bind_call(call, tfn, drop)
            sites += 1
            tdefaults = defaults_of(tfn)
            for p, arg in bound.items():
                if isinstance(arg, ast.Name) and arg.id in cparams and arg.id not in rebound and arg.id != p:
                    w = arg.id
                    # the caller's own option w goes to the callee's p although a parameter of the same name exists on one side
                    if (w in tparams) or (p in cparams and p not in rebound):
                        crossed.append({"caller": q, "callee": t, "param": p, "passed": w, "node": call, "module": m})
            if star_kw:
                continue
            for p in cparams:
                if p in tparams and p not in bound and p in tdefaults and p not in rebound:
                    dropped.append({"caller": q, "callee": t, "param": p, "node": call, "module": m})
    return crossed, dropped, sites


def filled_default(fn, p):
    """`def f(..., p=None)` with `if p is None: p = V` (or `p = V if p is None else p`) at the top level of the body: V is the effective default.
    -> source text of V, or None"""
    txt = lambda n: " ".join(ast.unparse(n).split())

    def is_none_test(t, positive=True):
        return isinstance(t, ast.Compare) and len(t.ops) == 1 and isinstance(t.left, ast.Name) and t.left.id == p \
            and isinstance(t.comparators[0], ast.Constant) and t.comparators[0].value is None \
            and isinstance(t.ops[0], ast.Is if positive else ast.IsNot)

    for st in fn.body:
        if isinstance(st, ast.If) and is_none_test(st.test) and len(st.body) == 1 and isinstance(st.body[0], ast.Assign) and not st.orelse \
                and len(st.body[0].targets) == 1 and isinstance(st.body[0].targets[0], ast.Name) and st.body[0].targets[0].id == p:
            return txt(st.body[0].value)
        if isinstance(st, ast.Assign) and len(st.targets) == 1 and isinstance(st.targets[0], ast.Name) and st.targets[0].id == p \
                and isinstance(st.value, ast.IfExp):
            e = st.value
            if is_none_test(e.test) and isinstance(e.orelse, ast.Name) and e.orelse.id == p:
                return txt(e.body)
            if is_none_test(e.test, positive=False) and isinstance(e.body, ast.Name) and e.body.id == p:
                return txt(e.orelse)
        # stop looking once the parameter has been used for something else
        if any(isinstance(x, ast.Name) and x.id == p for x in ast.walk(st)) and not isinstance(st, (ast.If, ast.Expr)):
            break
    return None
