"""Decision tables: the boolean control skeleton of a block of statements, executed over every truth assignment of its atomic tests.

A block like the arbitration step of ribana.trace_chains is a handful of comparisons (`first_idx == nm_idx`, `nm_idx != -1`, ...)
steering which of two variables is reset.  How the block is *spelled* (nested ifs, elif chains, a boolean temporary assigned in
two branches, a helper returning a pair) is irrelevant; what matters is the table  atoms -> outcome.  `run_block` executes the
if/elif/else structure and the assignments of boolean temporaries for one truth assignment and reports which marker statements
were executed; every other statement is skipped.  A test that is not built from the given atoms makes the table undecidable
(Unsupported), never a guess."""
from __future__ import annotations

import ast

from .values import Unsupported


def _txt(n):
    return " ".join(ast.unparse(n).split())


class Table:
    def __init__(self, atom_of, marker_of):
        """atom_of(text of a Compare / Call) -> atom name or (atom name, negated) or None;  marker_of(stmt) -> label or None"""
        self.atom_of = atom_of
        self.marker_of = marker_of

    def truth(self, e, env, assign):
        if isinstance(e, ast.BoolOp):
            vals = [self.truth(v, env, assign) for v in e.values]
            return all(vals) if isinstance(e.op, ast.And) else any(vals)
        if isinstance(e, ast.UnaryOp) and isinstance(e.op, ast.Not):
            return not self.truth(e.operand, env, assign)
        if isinstance(e, ast.Constant) and isinstance(e.value, bool):
            return e.value
        if isinstance(e, ast.Name) and e.id in env:
            return env[e.id]
        if isinstance(e, ast.Compare) and len(e.ops) > 1:
            # a == b != c : conjunction of the pairwise comparisons
            parts, left = [], e.left
            for op, right in zip(e.ops, e.comparators):
                parts.append(ast.Compare(left=left, ops=[op], comparators=[right]))
                left = right
            return all(self.truth(p, env, assign) for p in parts)
        a = self.atom_of(_txt(e))
        if a is None and isinstance(e, ast.Compare) and len(e.ops) == 1:
            # mirrored spelling
            m = ast.Compare(left=e.comparators[0], ops=e.ops, comparators=[e.left])
            if isinstance(e.ops[0], (ast.Eq, ast.NotEq)):
                a = self.atom_of(_txt(m))
        if a is None:
            raise Unsupported(f"test `{_txt(e)[:60]}` is not one of the atoms of this decision", e)
        name, neg = (a, False) if isinstance(a, str) else a
        return assign[name] != neg

    class Returned(Exception):
        def __init__(self, value):
            self.value = value

    def run_function(self, fn, assign):
        """execute the boolean skeleton of a helper; -> the expression node it returns (None when it falls off the end)"""
        try:
            self.run_block(fn.body, assign, {}, [], in_function=True)
        except Table.Returned as r:
            return r.value
        return None

    def run_block(self, stmts, assign, env=None, hits=None, in_function=False):
        env = {} if env is None else env
        hits = [] if hits is None else hits
        for st in stmts:
            if in_function and isinstance(st, ast.Return):
                raise Table.Returned(st.value)
            if in_function and isinstance(st, ast.If):
                if self.truth(st.test, env, assign):
                    self.run_block(st.body, assign, env, hits, True)
                else:
                    self.run_block(st.orelse, assign, env, hits, True)
                continue
            lab = self.marker_of(st)
            if isinstance(lab, list):
                hits.extend(lab)
                continue
            if lab is not None:
                hits.append(lab)
                continue
            if isinstance(st, ast.If):
                if self.truth(st.test, env, assign):
                    self.run_block(st.body, assign, env, hits)
                else:
                    self.run_block(st.orelse, assign, env, hits)
            elif isinstance(st, ast.Assign) and len(st.targets) == 1 and isinstance(st.targets[0], ast.Name) \
                    and isinstance(st.value, (ast.Compare, ast.BoolOp, ast.UnaryOp, ast.Constant, ast.Name)):
                try:
                    env[st.targets[0].id] = self.truth(st.value, env, assign)
                except Unsupported:
                    env.pop(st.targets[0].id, None)  # not a boolean of this decision (an ordinary value)
            # every other statement does not take part in the decision
        return hits
