"""E9 -- API compatibility of the analysed call sites with the *installed* libraries.

The rules are validated against the installed pandas / numpy / scipy by introspection at check time
(`inspect.signature`, `hasattr`, the callee's own validation tuple parsed from its source); nothing from the
repository is imported.  Kinds (DataFrame / Series) are inferred locally: constructors, the repo-wide convention
that `.df` holds the table, and use-based inference for loop variables."""
from __future__ import annotations

import ast
import importlib
import inspect
import textwrap

DF_ONLY = None


def _df_only():
    global DF_ONLY
    if DF_ONLY is None:
        import pandas as pd
        df = {a for a in dir(pd.DataFrame) if not a.startswith("_")}
        other = set(dir(list)) | set(dir(dict)) | set(dir(str)) | {a for a in dir(__import__("numpy").ndarray)}
        DF_ONLY = df - other
    return DF_ONLY


def lib_object(dotted):
    """installed library object for a canonical dotted name, or (None, reason)"""
    parts = dotted.split(".")
    for i in range(len(parts), 0, -1):
        modname = ".".join(parts[:i])
        try:
            obj = importlib.import_module(modname)
        except Exception:  # noqa
            continue
        for p in parts[i:]:
            if not hasattr(obj, p):
                return None, f"{modname} has no attribute {'.'.join(parts[i:])}"
            obj = getattr(obj, p)
        return obj, None
    return None, "module not installed"


def allowed_literals(func, kw):
    """literal set a library function validates a keyword against: parsed from `if <kw> not in (<literals>)`"""
    try:
        src = textwrap.dedent(inspect.getsource(func))
        tree = ast.parse(src)
    except Exception:  # noqa
        return None
    for n in ast.walk(tree):
        if isinstance(n, ast.Compare) and isinstance(n.left, ast.Name) and n.left.id == kw and len(n.ops) == 1 \
                and isinstance(n.ops[0], ast.NotIn):
            try:
                return set(ast.literal_eval(n.comparators[0]))
            except Exception:  # noqa
                return None
    return None


def sig_params(func):
    try:
        sig = inspect.signature(func)
    except (TypeError, ValueError):
        return None, True
    names = set(sig.parameters)
    varkw = any(p.kind == p.VAR_KEYWORD for p in sig.parameters.values())
    return names, varkw


class Issue:
    def __init__(self, rule, node, message):
        self.rule, self.node, self.message = rule, node, message


DF_RETURNING = {"copy", "fillna", "round", "reset_index", "sort_values", "drop", "drop_duplicates", "astype", "rename",
                "merge", "map", "applymap", "apply", "head", "tail", "dropna", "reindex", "set_index", "sort_index"}


class KindInfer(ast.NodeVisitor):
    """very small flow-insensitive kind inference inside one function"""

    def __init__(self, prog, mod, fn, df_params=()):
        self.prog, self.mod, self.fn = prog, mod, fn
        self.kind = {p: "DataFrame" for p in df_params}
        self.uses = {}
        for _ in range(3):
            for n in ast.walk(fn):
                if isinstance(n, ast.Assign) and len(n.targets) == 1 and isinstance(n.targets[0], ast.Name):
                    k = self.expr_kind(n.value)
                    if k:
                        self.kind.setdefault(n.targets[0].id, k)
        for n in ast.walk(fn):
            if isinstance(n, ast.Attribute) and isinstance(n.value, ast.Name):
                self.uses.setdefault(n.value.id, set()).add(n.attr)
        for name, attrs in self.uses.items():
            if name not in self.kind and len(attrs & _df_only()) >= 2:
                self.kind[name] = "DataFrame"

    def expr_kind(self, e):
        if isinstance(e, ast.Name):
            return self.kind.get(e.id)
        if isinstance(e, ast.Attribute):
            if e.attr == "df":
                return "DataFrame"
            return None
        if isinstance(e, ast.IfExp):
            return self.expr_kind(e.body) or self.expr_kind(e.orelse)
        if isinstance(e, ast.Call):
            d = self.prog.resolve(self.mod, e.func)
            if d in ("pandas.DataFrame", "pandas.read_csv", "pandas.concat", "pandas.read_table", "pandas.merge"):
                return "DataFrame"
            if isinstance(e.func, ast.Attribute):
                bk = self.expr_kind(e.func.value)
                if bk == "DataFrame" and e.func.attr in DF_RETURNING:
                    return "DataFrame"
                if bk == "Series" and e.func.attr in ("copy", "astype", "fillna", "round", "map", "mod", "eq"):
                    return "Series"
            return None
        if isinstance(e, ast.Subscript):
            base = e.value
            if isinstance(base, ast.Attribute) and base.attr in ("loc", "iloc"):
                bk = self.expr_kind(base.value)
                if bk == "DataFrame":
                    s = e.slice
                    if isinstance(s, ast.Tuple) and len(s.elts) == 2:
                        r, c = s.elts
                        scalar_row = isinstance(r, ast.Constant) and isinstance(r.value, int)
                        if isinstance(c, ast.Constant) and isinstance(c.value, str):
                            return None if scalar_row else "Series"
                        if isinstance(c, (ast.List, ast.Slice)):
                            return "DataFrame"
                    return "DataFrame"
                return None
            bk = self.expr_kind(base)
            if bk == "DataFrame":
                if isinstance(e.slice, ast.Constant) and isinstance(e.slice.value, str):
                    return "Series"
                if isinstance(e.slice, ast.List):
                    return "DataFrame"
                return None
        return None


def feature_test(test):
    """hasattr(x, 'name') -> (x source, name) else None"""
    if isinstance(test, ast.Call) and isinstance(test.func, ast.Name) and test.func.id == "hasattr" and len(test.args) == 2 \
            and isinstance(test.args[1], ast.Constant):
        return ast.unparse(test.args[0]), test.args[1].value
    return None


def dead_nodes(fn, kinds):
    """nodes on the dead side of a feature test evaluated against the installed library"""
    import pandas as pd
    dead = set()
    for n in ast.walk(fn):
        if isinstance(n, (ast.IfExp, ast.If)):
            ft = feature_test(n.test)
            if ft is None:
                continue
            recv, name = ft
            try:
                k = kinds.expr_kind(ast.parse(recv, mode="eval").body)
            except Exception:  # noqa
                k = None
            cls = {"DataFrame": pd.DataFrame, "Series": pd.Series}.get(k)
            if cls is None:
                continue
            alive_body = hasattr(cls, name)
            side = (n.orelse if alive_body else n.body)
            for s in (side if isinstance(side, list) else [side]):
                for x in ast.walk(s):
                    dead.add(id(x))
    return dead


def check_function(prog, qual, df_params=()):
    """-> (issues, n_call_sites_checked)"""
    import pandas as pd
    mod, fn = prog.func(qual)
    kinds = KindInfer(prog, mod, fn, df_params)
    dead = dead_nodes(fn, kinds)
    issues, n = [], 0
    own_nested = {id(x) for sub in ast.walk(fn) if isinstance(sub, (ast.FunctionDef,)) and sub is not fn for x in ast.walk(sub)}
    for node in ast.walk(fn):
        if id(node) in dead:
            continue
        if not isinstance(node, ast.Call):
            continue
        d = prog.resolve(mod, node.func)
        if d and d.split(".")[0] in ("pandas", "numpy", "scipy", "skimage", "sklearn", "emfile", "mrcfile"):
            obj, why = lib_object(d)
            n += 1
            if obj is None:
                issues.append(Issue("R1", node, f"{d} does not exist in the installed library ({why})"))
                continue
            if callable(obj):
                params, varkw = sig_params(obj)
                if params is not None:
                    for k in node.keywords:
                        if k.arg and k.arg not in params and not varkw:
                            issues.append(Issue("R2", node, f"{d}() of the installed library has no keyword {k.arg!r} "
                                                f"(TypeError for every call)"))
                        if k.arg and isinstance(k.value, ast.Constant) and isinstance(k.value.value, str):
                            allowed = allowed_literals(obj, k.arg)
                            if allowed is not None and k.value.value not in allowed:
                                issues.append(Issue("R3", node, f"{d}({k.arg}={k.value.value!r}) is rejected by the installed "
                                                    f"library (accepted: {sorted(allowed)}; ValueError for every call)"))
            continue
        if isinstance(node.func, ast.Attribute):
            k = kinds.expr_kind(node.func.value)
            cls = {"DataFrame": pd.DataFrame, "Series": pd.Series}.get(k)
            if cls is not None:
                n += 1
                attr = node.func.attr
                if not hasattr(cls, attr):
                    issues.append(Issue("R1", node, f"{k}.{attr} does not exist in the installed pandas "
                                        f"(AttributeError for every call)"))
                    continue
                params, varkw = sig_params(getattr(cls, attr))
                if params is not None:
                    for kw in node.keywords:
                        if kw.arg and kw.arg not in params and not varkw:
                            issues.append(Issue("R2", node, f"{k}.{attr}() of the installed pandas has no keyword {kw.arg!r}"))
        if isinstance(node.func, ast.Name) and node.func.id == "float" and len(node.args) == 1:
            if kinds.expr_kind(node.args[0]) == "Series" and not hasattr(pd.Series, "__float__"):
                n += 1
                issues.append(Issue("R4", node, "float() of a Series raises TypeError under the installed pandas "
                                    "(select the scalar first, e.g. .iloc[0])"))
    # R5: groupby(...).apply(f) result used as the table while the grouping column is excluded
    from pandas.core.groupby import DataFrameGroupBy
    sig = inspect.signature(DataFrameGroupBy.apply)
    ig = sig.parameters.get("include_groups")
    excluded = ig is not None and ig.default is False
    for node in ast.walk(fn):
        if isinstance(node, ast.Call) and isinstance(node.func, ast.Attribute) and node.func.attr == "apply" \
                and isinstance(node.func.value, ast.Call) and isinstance(node.func.value.func, ast.Attribute) \
                and node.func.value.func.attr == "groupby" and kinds.expr_kind(node.func.value.func.value) == "DataFrame":
            n += 1
            passes_true = any(k.arg == "include_groups" and isinstance(k.value, ast.Constant) and k.value.value is True
                              for k in node.keywords)
            par = mod.parents.get(node)
            stored_as_table = isinstance(par, ast.Assign) and any(
                isinstance(t, ast.Attribute) and t.attr == "df" for t in par.targets)
            if excluded and not passes_true and stored_as_table:
                issues.append(Issue("R5", node, "DataFrameGroupBy.apply of the installed pandas excludes the grouping column "
                                    "from the groups (include_groups=False): the result stored as the table has lost it"))
    return issues, n
