"""call transfer functions (functions by canonical name, methods by receiver kind)"""
from __future__ import annotations

import ast

from . import terms as tm
from .terms import T, const, sym, call, mk, is_const
from .values import (AV, Val, Arr, Frame, Rot, Seq, DictV, SliceV, Obj, Func, ClassRef, Ref, Method, Indexer, Unk,
                     Space, K, pyval, is_pyconst, to_term, NotConst, Unsupported)
from .lib import (as_arr, map1, arith, from_py, ROT, frame_values, series_of, filter_frame, frame_select, _space,
                  index_space, store_cols)

ELEMENTWISE = {"sqrt": "sqrt", "exp": "exp", "log": "log", "sin": "sin", "cos": "cos", "tan": "tan",
               "arccos": "arccos", "arcsin": "arcsin", "arctan": "arctan", "radians": "radians", "deg2rad": "radians",
               "degrees": "degrees", "rad2deg": "degrees", "floor": "floor", "ceil": "ceil", "abs": "abs",
               "absolute": "abs", "fabs": "abs", "square": "square", "acos": "arccos", "asin": "arcsin",
               "atan": "arctan", "negative": "neg", "logical_not": "not", "trunc": "trunc", "fix": "trunc", "sign": "sign"}
BINARY = {"arctan2": "arctan2", "atan2": "arctan2", "minimum": "minimum", "maximum": "maximum", "add": "add",
          "subtract": "sub", "multiply": "mul", "divide": "div", "true_divide": "div", "power": "pow", "mod": "mod",
          "logical_and": "and", "logical_or": "or", "floor_divide": "floordiv", "fmod": "mod", "pow": "pow",
          "copysign": "copysign", "greater": "gt", "less": "lt", "greater_equal": "ge", "less_equal": "le", "equal": "eq", "not_equal": "ne"}
TRANSPARENT = {"asarray", "array", "ascontiguousarray", "atleast_1d", "squeeze", "asanyarray", "copy", "float32",
               "float64", "single", "double", "real"}


def opaque(it, name, args, kwargs, space=None):
    return Unk(call(name, *[to_term(a) for a in args], *[mk("kw", const(k), to_term(v)) for k, v in kwargs.items()]),
               space=space)


def _kwcopy(k):
    """a plain copy of the keyword arguments for the event record (copying must not count as the model having looked at the options)"""
    return {kk: dict.__getitem__(k, kk) for kk in dict.keys(k)} if isinstance(k, dict) else dict(k)


def argn(args, kwargs, i, name, default=None):
    if i < len(args):
        return args[i]
    return kwargs.get(name, default)


def binmap(opn, a, b, it, node):
    return arith(it, opn, a, b, node)


# ====================================================================================================== functions
def call_ref(it, name, args, kwargs, node, fr):
    mod, _, fn = name.rpartition(".")
    if mod in ("numpy", "math", "numpy.fft", "numpy.linalg", "numpy.random", "numpy.ma"):
        return call_numpy(it, name, mod, fn, args, kwargs, node, fr)
    if mod == "builtins":
        return call_builtin(it, fn, args, kwargs, node, fr)
    if mod == "operator" and len(args) == 2 and fn.lstrip("i") in ("add", "sub", "mul", "truediv", "floordiv", "mod", "pow", "and_", "or_", "matmul"):
        # operator.add(a, b) is a + b; operator.iadd(a, b) is a += b (in place for arrays) and hands the result back
        opn = {"add": ast.Add, "sub": ast.Sub, "mul": ast.Mult, "truediv": ast.Div, "floordiv": ast.FloorDiv, "mod": ast.Mod, "pow": ast.Pow,
               "and_": ast.BitAnd, "or_": ast.BitOr, "matmul": ast.MatMult}[fn.lstrip("i") if fn not in ("and_", "or_") else fn]()
        if fn.startswith("i") and fn not in ("and_", "or_"):
            it.record("inplace", type(opn).__name__, [args[0]], {}, node, {"fresh": getattr(args[0], "fresh", None)})
        r_ = it.binop(opn, args[0], args[1], node)
        if fn.startswith("i") and getattr(args[0], "fresh", None) is not None and isinstance(r_, (Val, Unk)):
            r_.fresh = args[0].fresh
        return r_
    if mod == "pandas":
        return call_pandas(it, fn, args, kwargs, node, fr)
    if name.startswith(ROT):
        return call_rotation_ctor(it, name[len(ROT) + 1:], args, kwargs, node)
    if name in ("scipy.spatial.KDTree", "scipy.spatial.cKDTree", "sklearn.neighbors.KDTree", "sklearn.neighbors.BallTree") and args:
        u = Unk(call(name, to_term(args[0])))
        u.is_tree = True
        u.tree_data = args[0]
        u.tree_space = getattr(args[0], "space", None)
        return u
    if name == "builtins.dict.fromkeys" and args:
        keys = it.iter_items(args[0])
        if keys is not None and all(is_pyconst(k_) for k_ in keys):
            val_ = args[1] if len(args) > 1 else K(None)
            return DictV({pyval(k_): val_ for k_ in keys})
    if name in ("numba.prange",):
        return call_builtin(it, "range", args, kwargs, node, fr)
    if name in ("numba.cuda.grid",):
        i_ = Val(sym(f"tid@{getattr(node, 'lineno', 0)}"))
        i_.is_scalar_index = True
        i_.scalar_pos = True
        return i_
    if name == "copy.deepcopy" or name == "copy.copy":
        return deep_copy(args[0])
    if name in ("numba.njit", "numba.jit", "numba.core.decorators.njit", "numba.core.decorators.jit") and len(args) == 1 and type(args[0]).__name__ == "Func":
        return args[0]  # the compiled function is the function
    if name == "decimal.Decimal":
        v = args[0]
        d = Val(to_term(v))
        d.decimal = True
        return d
    if name.startswith("decimal.ROUND_"):
        return K(name.split(".")[-1])
    if name in ("warnings.warn", "builtins.print"):
        return K(None)
    if name in ("re.match", "re.search", "re.fullmatch") and all(is_pyconst(a) for a in args) and not kwargs:
        import re as _re
        mt = getattr(_re, name.split(".")[1])(*[pyval(a) for a in args])
        if mt is None:
            return K(None)
        mv = Seq([K(g) for g in mt.groups()], "match")
        mv.match0 = mt.group(0)
        return mv
    if name == "re.compile" and args and all(is_pyconst(a) for a in args) and not kwargs:
        import re as _re
        return K(_re.compile(*[pyval(a) for a in args]))
    if name in ("re.findall", "re.sub", "re.split") and all(is_pyconst(a) for a in args) and not kwargs:
        import re as _re
        return from_py(getattr(_re, name.split(".")[1])(*[pyval(a) for a in args]))
    if name == "math.ceil":
        return map1(lambda t: mk("ceil", t), args[0])
    return opaque(it, name, args, kwargs, space=_space(*args))


def deep_copy(v):
    from .interp import _fork
    return _fork(v, {})


def call_numpy(it, name, mod, fn, args, kwargs, node, fr):
    from . import imgdom
    if mod == "numpy" and fn in ("array", "asarray", "asanyarray", "ascontiguousarray") and args and kwargs.get("dtype") is not None:
        # np.asarray(x, dtype=D) is np.asarray(x).astype(D); a conversion to double precision keeps every value of the abstract (real) domain
        dt_ = kwargs.get("dtype")
        rest_ = {k_: v_ for k_, v_ in dict.items(kwargs) if k_ != "dtype"}
        r_ = call_numpy(it, name, mod, fn, args, rest_, node, fr)
        wide = (isinstance(dt_, Ref) and dt_.name in ("builtins.float", "numpy.float64", "numpy.double", "numpy.longdouble", "numpy.float_")) \
            or (is_pyconst(dt_) and pyval(dt_) in ("float", "float64", "double", "f8", "<f8", "d"))
        if wide or is_pyconst(r_):
            return r_
        return call_method(it, r_, "astype", [dt_], {}, node, fr)
    if mod == "numpy" and fn == "transpose" and args:
        ax_ = kwargs.get("axes", args[1] if len(args) > 1 else None)
        if ax_ is not None:
            try:
                perm = list(pyval(ax_))
                return call_method(it, args[0], "transpose", [K(int(a_)) for a_ in perm], {}, node, fr)
            except (NotConst, TypeError, Unsupported):
                pass
    if mod == "numpy" and fn in ("flip", "flipud", "fliplr") and args and getattr(args[0], "rank", None) is not None:
        # np.flip(x, axis=k) is x[..., ::-1, ...] with the reversed slice on axis k
        ax_ = K(0) if fn == "flipud" else K(1) if fn == "fliplr" else kwargs.get("axis", args[1] if len(args) > 1 else None)
        rk_ = args[0].rank
        if ax_ is not None and is_pyconst(ax_) and isinstance(pyval(ax_), int) and -rk_ <= pyval(ax_) < rk_:
            k_ = pyval(ax_) % rk_
            idx_ = Seq([SliceV(None, None, K(-1)) if i_ == k_ else SliceV(None, None, None) for i_ in range(rk_)], "tuple")
            return it.lib.getitem(it, args[0], idx_, node, fr)
    if mod == "numpy" and fn == "swapaxes" and len(args) == 3 and getattr(args[0], "rank", None) is not None \
            and all(is_pyconst(a_) and isinstance(pyval(a_), int) for a_ in args[1:]):
        rk_ = args[0].rank
        perm = list(range(rk_))
        i_, j_ = pyval(args[1]) % rk_, pyval(args[2]) % rk_
        perm[i_], perm[j_] = perm[j_], perm[i_]
        return call_method(it, args[0], "transpose", [K(a_) for a_ in perm], {}, node, fr)
    if mod == "numpy" and fn == "broadcast_to" and len(args) >= 2 and isinstance(args[0], Val) and imgdom.axes_of(args[0]) is not None:
        return args[0]  # an index function broadcast to the image's shape: the same function of the index
    if mod == "numpy" and fn in ("ascontiguousarray", "asfortranarray", "require") and args:
        return args[0]  # memory layout only: the same values in the same index order
    if "where" in kwargs and mod == "numpy" and fn in ("power", "divide", "true_divide", "sqrt", "log", "exp", "multiply", "add", "subtract", "reciprocal",
                                                        "float_power", "log10", "square"):
        # ufunc(..., where=m, out=o): computed where m holds, the value of `o` elsewhere (uninitialised without `out`)
        base = call_numpy(it, name, mod, fn, args, {k: v for k, v in kwargs.items() if k not in ("where", "out")}, node, fr)
        w_, o_ = kwargs["where"], kwargs.get("out")
        if isinstance(base, (Val, Unk)) and isinstance(w_, (Val, Unk)):
            other = to_term(o_) if o_ is not None else call("uninitialised", const(getattr(node, "lineno", 0)))
            r_ = Val(mk("ite", to_term(w_), to_term(base), other), space=getattr(base, "space", None))
            ax_ = imgdom.bcast_axes(getattr(base, "axes", None), getattr(w_, "axes", None))
            if ax_ is not None:
                r_.axes = ax_
            return r_
        raise Unsupported(f"numpy.{fn} with where= on a value that is not element-wise", node)
    if fn in ("array", "asarray", "stack") and args and isinstance(args[0], Seq):
        r_ = imgdom.stack_from_seq(args[0])
        if r_ is not None:
            return r_
    if fn == "sum" and args and isinstance(args[0], imgdom.CompStack):
        ax_ = argn(args, kwargs, 1, "axis")
        r_ = imgdom.stack_sum(args[0], pyval(ax_) if ax_ is not None and is_pyconst(ax_) else None)
        if r_ is not None:
            return r_
    if fn == "tile" and len(args) == 2:
        r_ = imgdom.stack_tile(args[0], args[1], None)
        if r_ is not None:
            return r_
    if mod == "numpy.fft" and args and fn in ("fftfreq",):
        r_ = imgdom.fftfreq(it, args, kwargs, node)
        if r_ is not None:
            return r_
    if mod == "numpy.fft" and args:
        if fn in ("fftshift", "ifftshift"):
            return imgdom.do_shift(it, fn, args[0], args, kwargs, node)
        if fn in ("fft2", "ifft2", "fftn", "ifftn"):
            return imgdom.do_fft(it, fn, args[0], args, kwargs, node)
    if fn == "real" and args and isinstance(args[0], imgdom.Filtered):
        f = args[0]
        return imgdom.Filtered(f.src, f.gain, f.axes, f.transformed, real=True)
    if fn in ("array", "asarray", "copy") and args and isinstance(args[0], (imgdom.Filtered, imgdom.Spectrum)):
        return args[0]
    if fn == "modf" and len(args) == 1 and not kwargs:
        # (fractional, integral) parts, both with the sign of the argument
        whole = map1(lambda t: mk("trunc", t), args[0])
        return Seq([binmap("sub", args[0], whole, it, node), whole], "tuple")
    if fn in ELEMENTWISE and args:
        op = ELEMENTWISE[fn]
        return map1(lambda t: mk(op, t), args[0])
    if fn in BINARY and len(args) >= 2:
        if fn in ("add", "subtract", "multiply", "divide", "true_divide") and any(type(a).__module__ == "sa.imgdom" for a in args[:2]):
            # np.multiply(spectrum, gain) is spectrum * gain: the image domain's own arithmetic decides it
            import ast as _ast
            op_ = {"add": _ast.Add, "subtract": _ast.Sub, "multiply": _ast.Mult, "divide": _ast.Div, "true_divide": _ast.Div}[fn]()
            return it.binop(op_, args[0], args[1], node)
        return binmap(BINARY[fn], args[0], args[1], it, node)
    if fn in TRANSPARENT and args and isinstance(args[0], (Val, Unk)) and not is_pyconst(args[0]):
        import copy as _copy
        v0 = args[0]
        v = _copy.copy(v0)
        cp = kwargs.get("copy")
        copies = fn in ("array", "copy") and not (cp is not None and is_pyconst(cp) and pyval(cp) is False)
        v.fresh = True if copies else getattr(v0, "fresh", None)
        if fn in ("float32", "float64", "single", "double") and isinstance(v, Val):
            v.term = mk("float", v.term)
        if kwargs.get("ndmin") is not None:
            pass
        return v
    if fn in TRANSPARENT and args:
        v = args[0]
        a = as_arr(v) if isinstance(v, Seq) else None
        if a is not None:
            if kwargs.get("ndmin") is not None and is_pyconst(kwargs["ndmin"]) and pyval(kwargs["ndmin"]) == 2 and a.ndim == 1:
                return Arr(a.cols, 2, a.space, single_row=True)
            return a
        if isinstance(v, Seq) and v.items and all(isinstance(x, Seq) for x in v.items):
            rows = [as_arr(x) for x in v.items]
            if all(r is not None for r in rows) and len(rows) == 1:
                return Arr(rows[0].cols, 2, single_row=True)
            m = Seq(v.items, "matrix")
            return m
        if isinstance(v, Frame):
            return frame_values(it, v, node)
        if isinstance(v, Arr) and fn in ("array", "copy", "asarray", "atleast_1d", "squeeze"):
            c = Arr(v.cols, v.ndim, v.space, v.single_row)
            c.notes = list(v.notes)
            for a_ in ("from_frame", "colnames", "pos_of"):
                if hasattr(v, a_):
                    setattr(c, a_, getattr(v, a_))
            if kwargs.get("ndmin") is not None and is_pyconst(kwargs["ndmin"]) and pyval(kwargs["ndmin"]) == 2 and c.ndim == 1:
                c.ndim, c.single_row = 2, True
            return c
        if isinstance(v, Val) and fn in ("float32", "float64", "single", "double"):
            return Val(mk("float", v.term), space=v.space)
        return v
    if fn in ("eye", "identity") and args and is_pyconst(args[0]) and isinstance(pyval(args[0]), int):
        u = Unk(T("eye", const(pyval(args[0]))))
        u.is_mat = True
        u.fresh = True
        return u
    if mod == "numpy.linalg" and fn == "inv" and args:
        u = Unk(T("matinv", to_term(args[0])))
        u.is_mat = True
        return u
    if fn == "atleast_2d" and args:
        v = args[0]
        a = as_arr(v)
        if a is not None and a.ndim == 1:
            return Arr(a.cols, 2, a.space, single_row=True)
        return v
    if fn in ("round", "around", "round_", "rint"):
        dec = argn(args, kwargs, 1, "decimals")
        d = const(pyval(dec)) if dec is not None and is_pyconst(dec) else const(0)
        return map1(lambda t: mk("round", t, d), args[0])
    if fn == "clip":
        lo_v, hi_v = argn(args, kwargs, 1, "a_min", K(None)), argn(args, kwargs, 2, "a_max", K(None))
        xa_ = as_arr(args[0]) if not isinstance(args[0], Val) else None
        la_ = as_arr(lo_v) if not isinstance(lo_v, Val) else None
        ha_ = as_arr(hi_v) if not isinstance(hi_v, Val) else None
        k_ = max([len(z_.cols) for z_ in (xa_, la_, ha_) if z_ is not None] or [0])
        if k_ and all(z_ is None or len(z_.cols) in (1, k_) for z_ in (xa_, la_, ha_)):
            # element-wise bounds (np.clip(x, 0, shape)): component k of x is clipped with component k of the bounds
            pick = lambda z_, v_, i_: (z_.cols[i_] if len(z_.cols) == k_ else z_.cols[0]) if z_ is not None else to_term(v_)
            cols_ = [T("clip", pick(xa_, args[0], i_), pick(la_, lo_v, i_), pick(ha_, hi_v, i_)) for i_ in range(k_)]
            ref_ = xa_ or la_ or ha_
            return Arr(cols_, max(z_.ndim for z_ in (xa_, la_, ha_) if z_ is not None), getattr(ref_, "space", None))
        lo, hi = to_term(lo_v), to_term(hi_v)
        return map1(lambda t: T("clip", t, lo, hi), args[0])
    if fn == "where":
        if len(args) == 3:
            c, a, b = args
            ct = to_term(c)
            aa, ab = as_arr(a) if not isinstance(a, Val) else None, as_arr(b) if not isinstance(b, Val) else None
            ac = as_arr(c) if not isinstance(c, Val) else None
            if aa is not None or ab is not None or ac is not None:
                ref = aa or ab or ac
                n = len(ref.cols)
                if any(x_ is not None and len(x_.cols) != n for x_ in (aa, ab, ac)):
                    raise Unsupported("numpy.where over arrays of different widths", node)
                ca = aa.cols if aa is not None else [to_term(a)] * n
                cb = ab.cols if ab is not None else [to_term(b)] * n
                cc = ac.cols if ac is not None else [ct] * n  # a column-structured condition selects column by column
                return Arr([mk("ite", k_, x, y) for k_, x, y in zip(cc, ca, cb)], ref.ndim, _space(c, a, b))
            r_ = Val(mk("ite", ct, to_term(a), to_term(b)), space=_space(c, a, b))
            ax_ = None
            for x_ in (c, a, b):
                ax_ = imgdom.bcast_axes(ax_, getattr(x_, "axes", None))
            if ax_ is not None:
                r_.axes = ax_
            return r_
        if len(args) == 1:
            m = args[0]
            sp = getattr(m, "space", None)
            mt = to_term(m)
            fs = Space(f"where[{tm.show(mt)[:50]}]", parent=sp, how="filter", key=mt.key())
            rk_ = getattr(m, "rank", None) or 1
            out_ = []
            for ax_ in range(rk_):
                p = Val(call("where", mt) if rk_ == 1 else call("where", mt, const(ax_)), space=fs, pos_of=sp)
                p.mask = m
                p.where_axis = ax_
                out_.append(p)
            return Seq(out_, "tuple")
    if fn in ("nonzero", "flatnonzero", "argwhere") and args:
        m = args[0]
        sp = getattr(m, "space", None)
        mt = to_term(m)
        fs = Space(f"where[{tm.show(mt)[:50]}]", parent=sp, how="filter", key=mt.key())
        p = Val(call("where", mt), space=fs, pos_of=sp)
        return p if fn == "flatnonzero" else Seq([p], "tuple")
    if fn == "argsort" and args:
        v = args[0]
        p = Val(call("argsort", to_term(v)), space=Space("argsort", parent=getattr(v, "space", None), how="sort"),
                pos_of=getattr(v, "space", None))
        p.sorted_by = v
        p.descending = False
        return p
    if fn == "linspace":
        r_ = imgdom.linspace(it, args, kwargs, node)
        if r_ is not None:
            return r_
    if fn == "meshgrid":
        r_ = imgdom.meshgrid(it, args, kwargs, node)
        if r_ is not None:
            return r_
    if fn == "arange":
        # an index vector: element j = start + j*step, j the generic index of an index space identified by its length
        if len(args) == 1:
            start, stop, step = K(0), args[0], K(1)
        else:
            start, stop = args[0], args[1]
            step = args[2] if len(args) > 2 else kwargs.get("step", K(1))
        st, sp, se = to_term(start), to_term(stop), to_term(step)
        length = mk("ceil", mk("div", mk("sub", sp, st), se))
        it.record("arange", "numpy.arange", [start, stop, step], {}, node, {"length": length})
        idx = it.index_symbol(length)
        r = Val(mk("add", st, mk("mul", idx, se)))
        r.arange = (start, stop, step)
        r.length = length
        from . import imgdom as _img
        r.axes = [_img.Axis(idx, length, name="arange")]
        so = getattr(stop, "shape_of", None)
        if so is not None and tm.cval(st) == 0 and tm.cval(se) == 1 and getattr(stop, "axis", 0) == 0:
            r.space = r.pos_of = getattr(so, "space", None)
            r.identity_positions = True
        r.arange_n = stop if len(args) == 1 else None
        return r
    if fn in ("zeros", "ones", "empty", "full", "zeros_like", "ones_like", "empty_like", "full_like"):
        shape = args[0] if args else kwargs.get("shape")
        fill = {"zeros": 0.0, "ones": 1.0}.get(fn.replace("_like", ""))
        if fn.startswith("full"):
            fv = to_term(argn(args, kwargs, 1, "fill_value"))
        elif fill is None:
            fv = call("uninitialised", const(getattr(node, "lineno", 0)))
        else:
            fv = const(fill)
        dt = kwargs.get("dtype")
        if dt is not None and isinstance(dt, Ref) and dt.name.endswith("bool") or (dt is not None and is_pyconst(dt) and pyval(dt) is bool):
            fv = const(bool(fill)) if fill is not None else fv
        elif dt is not None and fn.startswith("full") and _runtime_dtype(dt):
            fv = call("cast", fv, to_term(dt))  # the fill value is converted to a type only known at run time (may truncate)
        if fn.endswith("_like"):
            src = shape
            a = as_arr(src)
            if a is not None:
                r_ = Arr([fv] * len(a.cols), a.ndim, a.space)
                # x_like(<array exactly as the caller gave it>) without dtype=: the new array has the caller's element type, whatever it is
                if dt is None and all(isinstance(c_, T) and c_.op == "sym" for c_ in a.cols):
                    r_.like_input = True
                return r_
            v = Val(fv, space=getattr(src, "space", None))
            v.alloc = fn
            v.like = src
            return v
        dims = None
        if isinstance(shape, Seq):
            dims = shape.items
        elif shape is not None:
            dims = [shape]
        # an array allocated with a type narrower than float64 converts everything stored into it
        narrow = None
        dname = (dt.name.split(".")[-1] if isinstance(dt, Ref) else str(pyval(dt)) if dt is not None and is_pyconst(dt) else None)
        if dname in ("single", "float32", "half", "float16", "int8", "int16", "int32", "int64", "uint8", "uint16", "uint32", "uint64", "int", "intc", "short"):
            narrow = {"single": "float32", "half": "float16"}.get(dname, dname)
        if dims is not None and len(dims) == 2 and is_pyconst(dims[1]) and isinstance(pyval(dims[1]), int) and pyval(dims[1]) <= 64:
            sp = getattr(getattr(dims[0], "shape_of", None), "space", None)
            a = Arr([fv] * pyval(dims[1]), 2, sp)
            a.alloc = fn
            a.alloc_dtype = narrow
            a.nrows = dims[0]
            if is_pyconst(dims[0]) and pyval(dims[0]) == 1:
                a.single_row = True
            return a
        if dims is not None and len(dims) == 1 and is_pyconst(dims[0]) and isinstance(pyval(dims[0]), int) and pyval(dims[0]) <= 16:
            a = Arr([fv] * pyval(dims[0]), 1)
            a.alloc = fn
            return a
        v = Val(fv)
        v.alloc = fn
        v.fresh = True
        v.alloc_shape = shape
        v.alloc_dtype = narrow
        if dims is not None and len(dims) >= 1:
            so = getattr(dims[0], "shape_of", None)
            if so is not None and getattr(dims[0], "axis", 0) == 0:
                v.space = getattr(so, "space", None)
        return v
    if fn == "tile" and len(args) == 2:
        v, reps = args
        t_ = imgdom.tile(it, v, reps, node) if isinstance(v, Val) else None
        if t_ is not None:
            return t_
        a = as_arr(v)
        if a is not None and isinstance(reps, Seq) and len(reps.items) == 2 and is_pyconst(reps.items[1]) and pyval(reps.items[1]) == 1:
            return Arr(a.cols, 2)
        if isinstance(v, Arr) and v.ndim == 2 and isinstance(reps, Seq) and len(reps.items) == 2 and is_pyconst(reps.items[1]) \
                and pyval(reps.items[1]) == 1:
            c = Arr(v.cols, 2, None)
            c.tiled = (v, reps.items[0])
            return c
        if isinstance(v, Val) and isinstance(reps, Seq) and len(reps.items) == 2 and is_pyconst(reps.items[1]) \
                and pyval(reps.items[1]) == 1:
            c = Val(v.term)
            c.tiled = (v, reps.items[0])
            return c
        if isinstance(v, Val) and isinstance(reps, (Val, Unk)) and not isinstance(reps, Seq) and as_arr(v) is None:
            # np.tile(<1-D vector>, k): the vector repeated k times (same cyclic content as tiling an (n,1) column k times)
            c = Val(v.term)
            c.tiled = (v, reps)
            return c
        if isinstance(v, (Unk,)) and isinstance(reps, Seq) and len(reps.items) == 2 and is_pyconst(reps.items[1]) \
                and pyval(reps.items[1]) == 1:
            u = Unk(call("tile_rows", to_term(v)))
            u.tiled = v
            return u
        return opaque(it, name, args, kwargs)
    if fn in ("column_stack", "hstack", "vstack", "stack", "concatenate") and args:
        parts = it.iter_items(args[0])
        if parts is not None and fn in ("column_stack", "hstack") or (fn == "stack" and parts is not None and is_pyconst(kwargs.get("axis", K(0))) and pyval(kwargs.get("axis", K(0))) in (1, -1)):
            cols = []
            ok = True
            generic = any(isinstance(p, (Val, Unk)) and as_arr(p) is None for p in parts)
            for p in parts:
                if isinstance(p, (Val, Unk)) and as_arr(p) is None:
                    cols.append(p.term)
                else:
                    a = as_arr(p)
                    if a is None:
                        ok = False
                        break
                    if generic and a.ndim == 1 and len(a.cols) > 1 and fn in ("column_stack", "stack"):
                        # a 1-D vector of k entries next to generic per-row vectors: one column; its generic entry is known
                        # only when all entries are the same term (np.full)
                        if all(c_ == a.cols[0] for c_ in a.cols):
                            cols.append(a.cols[0])
                            continue
                        raise Unsupported("column_stack of a generic vector with an enumerated vector of different entries", node)
                    cols.extend(a.cols)
            if ok:
                return Arr(cols, 2, _space(*parts))
        if parts is not None and fn in ("concatenate", "vstack"):
            return opaque(it, name, parts, kwargs, space=None)
        return opaque(it, name, args, kwargs)
    if fn in ("sum", "mean", "max", "min", "prod", "amax", "amin", "nanmean", "median", "std", "var", "any", "all",
              "nansum", "nanmax", "nanmin") and args:
        return reduce_(it, fn, args[0], argn(args, kwargs, 1, "axis"), kwargs, node)
    if mod == "numpy.linalg" and fn == "norm" and args:
        return norm_(it, args[0], kwargs.get("axis", args[1] if len(args) > 2 else None) if "axis" in kwargs or len(args) > 2 else kwargs.get("axis"),
                     kwargs, node)
    if fn == "dot" and len(args) == 2:
        a, b = as_arr(args[0]), as_arr(args[1])
        if a is not None and b is not None and a.ndim == 1 and b.ndim == 1 and len(a.cols) == len(b.cols):
            t = None
            for x, y in zip(a.cols, b.cols):
                p = mk("mul", x, y)
                t = p if t is None else mk("add", t, p)
            return Val(t)
        return opaque(it, name, args, kwargs)
    if fn == "cross" and len(args) == 2:
        a, b = as_arr(args[0]), as_arr(args[1])
        if a is not None and b is not None and len(a.cols) == 3 and len(b.cols) == 3:
            (a0, a1, a2), (b0, b1, b2) = a.cols, b.cols
            return Arr([mk("sub", mk("mul", a1, b2), mk("mul", a2, b1)), mk("sub", mk("mul", a2, b0), mk("mul", a0, b2)),
                        mk("sub", mk("mul", a0, b1), mk("mul", a1, b0))], max(a.ndim, b.ndim), _space(a, b))
    if fn == "unique" and args:
        v = args[0]
        u = Unk(call("unique", to_term(v)))
        u.unique_of = v
        return u
    if fn in ("isin", "in1d") and len(args) >= 2:
        au_, inv_ = kwargs.get("assume_unique"), kwargs.get("invert")
        head_ = "isin"
        if au_ is not None and not (is_pyconst(au_) and pyval(au_) is False):
            head_ = "isin_assume_unique"  # only equal to isin when neither array repeats a value
        r_ = Val(call(head_, to_term(args[0]), to_term(args[1])), space=getattr(args[0], "space", None))
        if inv_ is not None and not (is_pyconst(inv_) and pyval(inv_) is False):
            if not is_pyconst(inv_):
                raise Unsupported("numpy.isin(invert=<expression>)", node)
            r_ = Val(mk("not", r_.term), space=r_.space)
        return r_
    if fn == "isnan" and args:
        return map1(lambda t: call("isnan", t), args[0])
    if fn == "power" and len(args) == 2:
        return binmap("pow", args[0], args[1], it, node)
    if fn == "pi":
        import math
        return K(math.pi)
    if fn == "shape" and args:
        from .lib import getattr_
        return getattr_(it, args[0], "shape", node, fr)
    return opaque(it, name, args, kwargs, space=_space(*args))


def holds_positions(v):
    """is v an array of row / element positions (np.where(...)[0], argsort, a selection of such)?"""
    if getattr(v, "pos_of", None) is not None or getattr(v, "scalar_pos", False):
        return True
    t = getattr(v, "term", None)
    while t is not None and getattr(t, "op", None) == "call" and t.args and t.args[0] in ("sel", "elem", "unique", "sorted"):
        t = t.args[1] if len(t.args) > 1 else None
    return t is not None and getattr(t, "op", None) == "call" and len(t.args) == 2 and t.args[0] in ("where", "argwhere", "nonzero", "flatnonzero", "argsort")


def reduce_(it, fn, v, axis, kwargs, node):
    extra_ = {k: x for k, x in kwargs.items() if k in ("initial", "where")}
    if extra_:
        # `initial` takes part in the reduction (min(x, initial=0) is min(min(x), 0)); `where` restricts it
        base = reduce_(it, fn, v, axis, {k: x for k, x in kwargs.items() if k not in ("initial", "where")}, node)
        t = to_term(base)
        if "where" in extra_:
            t = call("reduce_where", t, to_term(extra_["where"]))
        if "initial" in extra_:
            nm = {"amax": "max", "amin": "min", "nanmax": "max", "nanmin": "min"}.get(fn, fn)
            op = {"max": "maximum", "min": "minimum", "sum": "add", "prod": "mul"}.get(nm)
            t = mk(op, t, to_term(extra_["initial"])) if op else call("reduce_initial", t, to_term(extra_["initial"]))
        return Unk(t, space=getattr(base, "space", None))
    fnn = {"amax": "max", "amin": "min", "nansum": "sum", "nanmax": "max", "nanmin": "min", "nanmean": "mean"}.get(fn, fn)
    a = as_arr(v) if not isinstance(v, Val) else None
    ax = None
    if axis is not None:
        try:
            ax = pyval(axis)
        except NotConst:
            ax = "?"
    if a is not None and a.ndim == 2 and ax in (1, -1):
        cols = a.cols
        if fnn == "sum":
            t = cols[0]
            for c in cols[1:]:
                t = mk("add", t, c)
            return Val(t, space=a.space)
        if fnn == "mean":
            t = cols[0]
            for c in cols[1:]:
                t = mk("add", t, c)
            return Val(mk("div", t, const(float(len(cols)))), space=a.space)
        if fnn in ("max", "min"):
            t = cols[0]
            for c in cols[1:]:
                t = mk("maximum" if fnn == "max" else "minimum", t, c)
            return Val(t, space=a.space)
        if fnn in ("all", "any"):
            t = cols[0]
            for c in cols[1:]:
                t = mk("and" if fnn == "all" else "or", t, c)
            return Val(t, space=a.space)
    if a is not None and a.ndim == 1 and ax in (None, 0, -1):
        cols = a.cols
        if fnn == "sum":
            t = cols[0]
            for c in cols[1:]:
                t = mk("add", t, c)
            return Val(t)
        if fnn == "mean":
            t = cols[0]
            for c in cols[1:]:
                t = mk("add", t, c)
            return Val(mk("div", t, const(float(len(cols)))))
        if fnn in ("max", "min"):
            t = cols[0]
            for c in cols[1:]:
                t = mk("maximum" if fnn == "max" else "minimum", t, c)
            return Val(t)
    if a is not None and a.ndim == 2 and ax == 0:
        return Arr([call(f"reduce0:{fnn}", c) for c in a.cols], 1)
    r = Unk(call(f"reduce:{fnn}", to_term(v), const(ax)))
    r.reduced = (fnn, v, ax)
    if fnn in ("any", "all") and holds_positions(v):
        r.any_of_positions = True  # any() / all() of an array of positions asks whether a position is non-zero, not whether there are any
    return r


def norm_(it, v, axis, kwargs, node):
    a = as_arr(v) if not isinstance(v, Val) else None
    ax = None
    if axis is not None:
        try:
            ax = pyval(axis)
        except NotConst:
            ax = "?"
    if a is not None and ((a.ndim == 2 and ax in (1, -1)) or (a.ndim == 1 and ax in (None, 0, -1))):
        t = None
        for c in a.cols:
            p = mk("mul", c, c)
            t = p if t is None else mk("add", t, p)
        r = Val(mk("sqrt", t), space=a.space if a.ndim == 2 else None)
        r.rowwise = True
        return r
    r = Unk(call("reduce:norm", to_term(v), const(ax)))
    r.reduced = ("norm", v, ax)
    return r


def call_builtin(it, fn, args, kwargs, node, fr):
    if fn in ("float", "int") and args:
        v = args[0]
        if is_pyconst(v):
            try:
                return K(float(pyval(v)) if fn == "float" else int(pyval(v)))
            except Exception:  # noqa
                pass
        if getattr(v, "decimal_rounded", None):
            r = Val(v.term)
            return r
        if isinstance(v, Val) and getattr(v, "series", False) and fn == "float":
            it.record("api", "float(Series)", [v], {}, node)
        if fn == "float":
            if isinstance(v, Val) and (getattr(v, "decimal_rounded", None) or v.space is not None):
                return map1(lambda t: t, v)
            return map1(lambda t: mk("float", t), v)
        r = map1(lambda t: mk("int", t), v)
        return r
    if fn == "next" and args and isinstance(args[0], Seq) and args[0].kind in ("list", "tuple", "gen"):
        # next(<enumerated generator>, default): its first element, or the default when there is none
        if args[0].items:
            return args[0].items[0]
        if len(args) > 1:
            return args[1]
        raise Unsupported("next() of an empty generator without a default (StopIteration)", node)
    if fn == "str" and args:
        if is_pyconst(args[0]):
            return K(str(pyval(args[0])))
        return Val(T("str", to_term(args[0])))
    if fn == "len" and args:
        v = args[0]
        if isinstance(v, Seq):
            return K(len(v.items))
        if isinstance(v, DictV):
            return K(len(v.items))
        if isinstance(v, Arr) and v.ndim == 1:
            return K(len(v.cols))
        if is_pyconst(v):
            return K(len(pyval(v)))
        r = Val(v.space.nrows() if getattr(v, "space", None)
                else call("len", to_term(v)))
        r.shape_of = v
        r.axis = 0
        return r
    if fn == "range":
        try:
            vals = [pyval(a) for a in args]
            r = range(*vals)
            if len(r) <= 64:
                return Seq([K(i) for i in r], "list")
        except NotConst:
            pass
        u = Val(call("range", *[to_term(a) for a in args]))
        u.iter_kind = "range"
        u.range_args = args
        for a in args:
            so = getattr(a, "shape_of", None)
            if so is not None:
                u.range_space = getattr(so, "space", None)
        return u
    if fn == "list" or fn == "tuple":
        if not args:
            return Seq([], fn)
        items = it.iter_items(args[0])
        if items is not None:
            return Seq(items, fn)
        v = args[0]
        if isinstance(v, Val) and getattr(v, "iter_kind", None) == "range":
            r = Val(v.term)
            r.range_args = v.range_args
            r.is_range = True
            return r
        return v
    if fn == "set":
        if not args:
            return Seq([], "set")
        items = it.iter_items(args[0])
        if items is not None:
            return Seq(items, "set")
        u = Unk(call("set", to_term(args[0])))
        u.set_of = args[0]
        return u
    if fn == "dict":
        if not args:
            return DictV({k: v for k, v in kwargs.items()})
        return opaque(it, "dict", args, kwargs)
    if fn == "sorted" and args:
        items = it.iter_items(args[0])
        if items is not None and all(is_pyconst(x) for x in items):
            key = kwargs.get("key")
            rev = bool(pyval(kwargs["reverse"])) if "reverse" in kwargs and is_pyconst(kwargs["reverse"]) else False
            if key is None:
                return Seq([K(x) for x in sorted((pyval(x) for x in items), reverse=rev)], "list")
            if isinstance(key, Ref) and key.name == "builtins.len":
                return Seq([K(x) for x in sorted((pyval(x) for x in items), key=len, reverse=rev)], "list")
        u = Unk(call("sorted", to_term(args[0])), space=None)
        u.sorted_of = args[0]
        if getattr(args[0], "pos_of", None) is not None:
            u.pos_of = args[0].pos_of
        return u
    if fn == "zip":
        lists = [it.iter_items(a) for a in args]
        if all(x is not None for x in lists):
            n = min(len(x) for x in lists) if lists else 0
            return Seq([Seq([x[i] for x in lists], "tuple") for i in range(n)], "list")
        u = Val(call("zip", *[to_term(a) for a in args]))
        u.iter_kind = "zip"
        u.inners = args
        return u
    if fn == "enumerate" and args:
        items = it.iter_items(args[0])
        start = pyval(argn(args, kwargs, 1, "start", K(0)))
        if items is not None:
            return Seq([Seq([K(i + start), x], "tuple") for i, x in enumerate(items)], "list")
        u = Val(call("enumerate", to_term(args[0])))
        u.iter_kind = "enumerate"
        u.inner = args[0]
        return u
    if fn == "isinstance" and len(args) == 2:
        return isinstance_(it, args[0], args[1], node)
    if fn in ("min", "max") and args:
        vals = args if len(args) > 1 else it.iter_items(args[0])
        if vals is not None and len(vals) >= 1:
            if all(is_pyconst(v) for v in vals):
                return K((min if fn == "min" else max)(pyval(v) for v in vals))
            t = to_term(vals[0])
            for v in vals[1:]:
                t = mk("minimum" if fn == "min" else "maximum", t, to_term(v))
            return Val(t)
        return reduce_(it, fn, args[0], None, kwargs, node)
    if fn in ("all", "any") and args:
        items = it.iter_items(args[0])
        if items is not None:
            if all(is_pyconst(x) for x in items):
                return K((all if fn == "all" else any)(pyval(x) for x in items))
            t = None
            for x in items:
                t = to_term(x) if t is None else mk("and" if fn == "all" else "or", t, to_term(x))
            r = Val(t)
            r.reduced_builtin = (fn, items)
            return r
        r = Unk(call(fn, to_term(args[0])))
        r.reduced_builtin = (fn, args[0])
        return r
    if fn == "abs" and args:
        return map1(lambda t: mk("abs", t), args[0])
    if fn == "round" and args:
        d = argn(args, kwargs, 1, "ndigits")
        dd = const(pyval(d)) if d is not None and is_pyconst(d) else const(0)
        r = map1(lambda t: mk("round", t, dd), args[0])
        return r
    if fn == "sum" and args:
        items = it.iter_items(args[0])
        if items is not None and items:
            t = to_term(items[0])
            for x in items[1:]:
                t = mk("add", t, to_term(x))
            return Val(t)
        return reduce_(it, "sum", args[0], None, kwargs, node)
    if fn == "id" and len(args) == 1 and not kwargs:
        # identity of an object: the same abstract value is the same object, two values built separately are different objects
        return K(("object-identity", id(args[0])))
    if fn == "print":
        return K(None)
    if fn == "bool" and args:
        a0 = args[0]
        if isinstance(a0, Unk) and a0.term.op == "call" and a0.term.args[0] in ("re.search", "re.match", "re.fullmatch") \
                and all(tm.is_const(x) for x in a0.term.args[1:]):
            import re as _re
            return K(bool(getattr(_re, a0.term.args[0].split(".")[1])(*[x.args[0] for x in a0.term.args[1:]])))
        return a0
    if fn == "type" and args:
        v = args[0]
        if isinstance(v, Obj):
            return ClassRef(v.cls)
        return opaque(it, "type", args, kwargs)
    if fn == "hasattr" and len(args) == 2:
        it.record("feature-test", "hasattr", args, {}, node)
        if isinstance(args[0], Frame) and is_pyconst(args[1]) and isinstance(pyval(args[1]), str):
            # a feature test on a table: answered from the installed pandas (the library the checks are run against, as in E9)
            import pandas as _pd
            return K(hasattr(_pd.DataFrame, pyval(args[1])) or pyval(args[1]) in args[0].cols)
        if is_pyconst(args[0]) and not isinstance(args[0], Seq) and is_pyconst(args[1]) and isinstance(pyval(args[1]), str) \
                and isinstance(pyval(args[0]), (str, int, float, bool, type(None), bytes)):
            return K(hasattr(pyval(args[0]), pyval(args[1])))  # a literal text / number: what it has is what its type has
        if isinstance(args[0], Obj) and is_pyconst(args[1]) and isinstance(pyval(args[1]), str):
            # an instance of a class of the repository: it has the attribute iff it was set on the object or the class hierarchy defines it
            nm_ = pyval(args[1])
            if nm_ in args[0].attrs or it.prog.find_method(args[0].cls, nm_):
                return K(True)
            try:
                if any(it.prog.class_attr_node(c_, nm_) is not None for c_ in it.prog.mro(args[0].cls)):
                    return K(True)
            except Exception:  # noqa
                pass
        return Val(call("hasattr", to_term(args[0]), to_term(args[1])))
    if fn == "getattr" and len(args) >= 2 and is_pyconst(args[1]):
        from .lib import getattr_
        return getattr_(it, args[0], pyval(args[1]), node, fr)
    if fn in ("ValueError", "TypeError", "IOError", "KeyError", "Exception", "IndexError", "FileNotFoundError",
              "NotImplementedError", "RuntimeError"):
        return Unk(call(fn))
    if fn == "reversed" and args:
        items = it.iter_items(args[0])
        if items is not None:
            return Seq(list(reversed(items)), "list")
    if fn == "map" and len(args) == 2:
        items = it.iter_items(args[1])
        if items is not None and isinstance(args[0], (Func, Ref)):
            return Seq([it.call(args[0], [x], {}, node, fr) for x in items], "list")
    if fn == "slice":
        a = list(args) + [None] * (3 - len(args))
        if len(args) == 1:
            return SliceV(None, a[0], None)
        return SliceV(a[0], a[1], a[2])
    if fn == "open":
        return Unk(call("open", *[to_term(a) for a in args]))
    return opaque(it, "builtins." + fn, args, kwargs, space=_space(*args))


def isinstance_(it, v, cls, node):
    names = []
    for c in (cls.items if isinstance(cls, Seq) else [cls]):
        if isinstance(c, Ref):
            names.append(c.name)
        elif isinstance(c, ClassRef):
            names.append("cryocat." + c.qual)
        else:
            names.append("?")

    def any_(pred):
        return any(pred(n) for n in names)

    if isinstance(v, Obj):
        mro = ["cryocat." + c for c in it.prog.mro(v.cls)]
        return K(any_(lambda n: n in mro))
    if isinstance(v, Frame):
        return K(any_(lambda n: n.endswith("DataFrame")))
    if isinstance(v, Rot):
        return K(any_(lambda n: n == ROT))
    if is_pyconst(v):
        pv = pyval(v)
        tn = type(pv).__name__
        if isinstance(v, Seq):
            tn = v.kind
        return K(any_(lambda n: n == "builtins." + tn or (tn == "bool" and n == "builtins.int")))  # bool is a subclass of int
    if isinstance(v, Seq):
        return K(any_(lambda n: n == "builtins." + v.kind))
    if isinstance(v, DictV):
        return K(any_(lambda n: n == "builtins.dict"))
    if isinstance(v, Arr):
        return K(any_(lambda n: n == "numpy.ndarray"))
    kind_ = getattr(v, "pykind", None)
    if kind_ is not None:
        # the obligation says what kind of Python value this symbolic argument is (an ndarray, a list, a str ...): type tests are decided for
        # it wherever they are made (helpers included), for the classes of the table of mutually exclusive kinds
        table = {"numpy.ndarray": "ndarray", "builtins.list": "list", "builtins.tuple": "tuple", "builtins.str": "str", "os.PathLike": "path",
                 "pathlib.Path": "path", "pathlib.PurePath": "path", "pandas.DataFrame": "DataFrame", "pandas.Series": "Series", "pandas.Index": "Index",
                 "builtins.dict": "dict", "builtins.range": "range", "builtins.bytes": "bytes", "builtins.set": "set",
                 "pandas.core.frame.DataFrame": "DataFrame", "pandas.core.series.Series": "Series"}
        if all(n in table for n in names):
            return K(any(table[n] == kind_ for n in names))
    return Val(call("isinstance", to_term(v), const("|".join(names))))


def call_pandas(it, fn, args, kwargs, node, fr):
    if fn == "DataFrame":
        data = argn(args, kwargs, 0, "data")
        cols = kwargs.get("columns")
        if isinstance(data, DictV):
            f = Frame(name="new", order=list(data.items))
            sp = None
            for k, v in data.items.items():
                f.cols[k] = to_term(v)
                sp = sp or getattr(v, "space", None)
            f.space = Space("DataFrame", parent=sp, how="same") if sp is None else sp
            f.labels_positional = True
            labs_ = [getattr(v, "lab", None) for v in data.items.values() if getattr(v, "lab", None) is not None]
            if labs_:  # a table built from columns keeps their row labels
                f.labels_positional = labs_[0][0] == "pos"
                f.lab_root = labs_[0][1]
            f.created_from = data
            return f
        names = None
        if cols is not None:
            try:
                names = pyval(cols)
            except NotConst:
                names = None
        if data is None and names is not None:
            f = Frame(name="empty", order=list(names))
            f.cols = {n: call("norow", const(n)) for n in names}
            f.space = Space("empty", how="empty")
            f.labels_positional = True
            f.is_empty = True
            return f
        a = as_arr(data) if data is not None else None
        if a is not None and names is not None and len(names) == len(a.cols):
            cols_ = list(a.cols)
            dt_ = kwargs.get("dtype")
            if dt_ is not None and isinstance(dt_, Ref) and dt_.name in ("numpy.float32", "numpy.single", "numpy.float16", "numpy.half", "numpy.int16",
                                                                       "numpy.int8", "numpy.uint8", "numpy.uint16", "numpy.int32"):
                cols_ = [call("cast", c_, to_term(dt_)) for c_ in cols_]  # a narrower storage type: values (e.g. large ids) are rounded / wrapped
            f = Frame(dict(zip(names, cols_)), list(names), name="new", space=a.space)
            f.labels_positional = True
            f.alloc = getattr(a, "alloc", None)
            return f
        if cols is None and isinstance(data, Seq) and data.kind == "list" and len(data.items) == 1 and isinstance(data.items[0], (Val, Unk)) \
                and as_arr(data.items[0]) is None and kwargs.get("index") is None:
            # pd.DataFrame([x]): one row, one column (labelled 0) holding x
            f = Frame({0: to_term(data.items[0])}, [0], name="new")
            f.space = Space("one row", how="root")
            f.labels_positional = True
            return f
        if data is None and cols is None:
            f = Frame(name="empty", order=[])
            f.space = Space("empty", how="empty")
            f.is_empty = True
            f.labels_positional = True
            return f
        if isinstance(data, Val) and getattr(data, "alloc", None) and names is not None:
            f = Frame({n: data.term for n in names}, list(names), name="new", space=data.space)
            f.labels_positional = True
            f.alloc = data.alloc
            return f
        if isinstance(data, Arr) and getattr(data, "alloc", None) and names is None and cols is not None:
            pass
        if isinstance(data, (Unk, Val)) and names is not None and not is_pyconst(data):
            dt = to_term(data)
            f = Frame({n: call("colof", dt, const(i)) for i, n in enumerate(names)}, list(names), name="new",
                      space=getattr(data, "space", None) or Space("DataFrame", how="root"))
            f.labels_positional = True
            f.data_term = dt
            return f
        u = opaque(it, "pandas.DataFrame", args, kwargs)
        return u
    if fn == "concat":
        rep = getattr(args[0], "repeated", None) if args else None
        if rep is not None and isinstance(rep[0], Frame):
            f = rep[0].clone()
            f.space = Space("repeat", parent=rep[0].space, how="repeat")
            f.space.count = rep[1]
            f.notes.append(("repeat", to_term(rep[1])))
            f.labels_positional = False
            return f
        parts = it.iter_items(args[0]) if args else None
        if parts is None:
            return opaque(it, "pandas.concat", args, kwargs)
        frames = [p for p in parts if isinstance(p, Frame)]
        if len(frames) != len(parts):
            return opaque(it, "pandas.concat", args, kwargs)
        axis = kwargs.get("axis")
        if axis is not None and is_pyconst(axis) and pyval(axis) == 1:
            f = frames[0].clone()
            for g in frames[1:]:
                for k in g.names():
                    f.cols[k] = g.cols[k]
                    if f.order is not None and k not in f.order:
                        f.order.append(k)
            f.notes.append(("concat-axis1", len(frames)))
            return f
        real = [g for g in frames if not getattr(g, "is_empty", False)] or frames[:1]
        f = real[0].clone()
        allnames = list(dict.fromkeys(n for g in frames for n in g.names()))
        for n in allnames:
            t = None
            for g in real:
                c = g.cols.get(n, call("absent", const(n)))
                t = c if t is None else T("concat", t, c)
            f.cols[n] = t
        if frames[0].order is not None:
            f.order = list(frames[0].order) + [n for n in allnames if n not in frames[0].order]
        f.space = Space("concat", how="concat")
        f.space.parts = [g.space for g in frames]
        ig = kwargs.get("ignore_index")
        f.labels_positional = bool(ig is not None and is_pyconst(ig) and pyval(ig))
        if f.labels_positional:
            f.lab_root = object()
        f.notes = [n for g in frames for n in g.notes] + [("concat", len(frames))]
        f.concat_of = frames
        return f
    if fn == "to_numeric" and args:
        v = args[0]
        it.record("api", "to_numeric", args, kwargs, node)
        return v
    if fn in ("read_csv", "read_table"):
        f = Frame(name="csv", open_=True, prefix="csv:")
        f.space = Space("csv", how="root")
        f.labels_positional = True
        f.read_call = (args, kwargs)
        hdr = kwargs.get("header")
        if hdr is not None and is_pyconst(hdr) and pyval(hdr) is None:
            f.int_columns = True
            f.order = list(range(12))
            f.cols = {k_: sym(f"csv:{k_}") for k_ in f.order}
            f.open = False
        names = kwargs.get("names")
        if names is not None and is_pyconst(names):
            f.order = list(pyval(names))
            f.cols = {n: sym("csv:" + str(n)) for n in f.order}
            f.open = False
        return f
    if fn == "isna" or fn == "isnull":
        return map1(lambda t: call("isnan", t), args[0])
    if fn == "Series":
        return args[0] if args else opaque(it, "pandas.Series", args, kwargs)
    return opaque(it, "pandas." + fn, args, kwargs)


def call_rotation_ctor(it, fn, args, kwargs, node):
    if fn == "from_euler":
        seq = argn(args, kwargs, 0, "seq")
        ang = argn(args, kwargs, 1, "angles")
        deg = argn(args, kwargs, 2, "degrees", K(False))
        try:
            s = pyval(seq)
            d = bool(pyval(deg))
        except NotConst:
            raise Unsupported("from_euler with non-literal sequence/degrees", node)
        a = as_arr(ang) if not isinstance(ang, Val) else None
        if a is None:
            if isinstance(ang, (Val, Unk)) and len(s) == 1:
                return Rot(T("euler", const(s), T("vec", to_term(ang)), const(d)), space=_space(ang))
            at = to_term(ang)
            r = Rot(T("euler", const(s), at, const(d)), space=_space(ang))
            r.opaque_angles = ang
            return r
        if len(a.cols) != len(s):
            raise Unsupported(f"from_euler: {len(a.cols)} angle components for sequence {s!r}", node)
        r = Rot(T("euler", const(s), T("vec", *a.cols), const(d)), space=a.space)
        r.euler = (s, list(a.cols), d)
        # one rotation per row of a table-long (N, k) angle array: row 0 of anything computed from it is the FIRST particle's, not "the only row"
        r.per_row = a.ndim == 2 and not a.single_row and a.space is not None
        return r
    if fn == "from_matrix":
        m = args[0]
        return Rot(to_term(m), space=_space(m))
    if fn == "identity":
        return Rot(T("identity3"))
    if fn == "from_quat":
        return Rot(call("from_quat", to_term(args[0])), space=_space(args[0]))
    if fn == "from_rotvec":
        return Rot(call("from_rotvec", to_term(args[0])), space=_space(args[0]))
    if fn == "concatenate":
        return Rot(call("rot_concatenate", to_term(args[0])))
    if fn == "align_vectors":
        return Seq([Rot(call("align_vectors", *[to_term(a) for a in args])), Unk(call("rssd"))], "tuple")
    if fn == "random":
        return Rot(call("rot_random"))
    raise Unsupported(f"Rotation.{fn}", node)


# ====================================================================================================== methods
def call_method(it, recv, name, args, kwargs, node, fr):
    from . import imgdom as _img
    if getattr(recv, "file_text", None) is not None:
        from .concrete import file_method
        return file_method(it, recv, name, args, node)
    if isinstance(recv, _img.CompStack):
        if name == "reshape":
            shape = args[0] if len(args) == 1 and isinstance(args[0], Seq) else Seq(args, "tuple")
            r_ = _img.stack_reshape(recv, shape)
            if r_ is not None:
                return r_
        if name in ("copy", "astype"):
            return recv
        raise Unsupported(f"method .{name} on a stack of component grids", node)
    if isinstance(recv, Frame):
        return frame_method(it, recv, name, args, kwargs, node, fr)
    if isinstance(recv, Val):
        return val_method(it, recv, name, args, kwargs, node, fr)
    if isinstance(recv, Arr):
        return arr_method(it, recv, name, args, kwargs, node, fr)
    if isinstance(recv, Rot):
        return rot_method(it, recv, name, args, kwargs, node)
    if isinstance(recv, Seq) and name == "isin" and getattr(recv, "of_frame", None) is not None and args:
        try:
            v_ = pyval(args[0])
            names = [v_] if isinstance(v_, str) else list(v_)
        except NotConst:
            names = None
        if names is not None:
            u = Unk(call("colmask", to_term(recv), to_term(args[0])))
            u.colmask = (recv.of_frame, names)
            return u
    if isinstance(recv, Seq):
        return seq_method(it, recv, name, args, kwargs, node, fr)
    if isinstance(recv, DictV):
        return dict_method(it, recv, name, args, kwargs, node, fr)
    if isinstance(recv, Method):
        # series.str.xxx(...)
        it.record("call", f"method:{recv.name}.{name}", [recv.recv] + args, _kwcopy(kwargs), node)
        base = recv.recv
        kwn = sorted(kwargs)
        u = Val(call(f".{recv.name}.{name}" + (f"[{','.join(kwn)}]" if kwn else ""), to_term(base), *[to_term(a) for a in args],
                     *[to_term(kwargs[k_]) for k_ in kwn]), space=getattr(base, "space", None), series=True)
        u.method_chain = (recv.name, name, base, args)
        return u
    if isinstance(recv, Unk) and getattr(recv, "is_tree", False) and name in ("query", "query_ball_point", "query_radius"):
        it.record("call", "method:" + name, [recv] + args, _kwcopy(kwargs), node)
        qsp = getattr(args[0], "space", None) if args else None
        base_t = call("." + name, recv.term, *[to_term(a) for a in args], *[mk("kw", const(k), to_term(v)) for k, v in kwargs.items()])
        if name == "query":
            dist = Val(call("unpack", base_t, const(0)), space=qsp)
            idx = Val(call("unpack", base_t, const(1)), space=qsp, pos_of=recv.tree_space)
            dist.tree_query = idx.tree_query = (recv, args[0] if args else None)
            if _flag(kwargs, "return_distance", True) is False:
                return idx
            return Seq([dist, idx], "tuple")
        u = Unk(base_t, space=qsp)  # one neighbour list per query point
        u.pos_of = recv.tree_space
        q0_ = args[0] if args else None
        u.nested_lists = qsp is not None and not getattr(q0_, "single_row", False) and not getattr(q0_, "each_of", None)
        u.tree_query = (recv, args[0] if args else None)
        if _flag(kwargs, "return_distance", False) is True:
            d_ = Unk(call("unpack", base_t, const(1)))
            return Seq([u, d_], "tuple")
        return u
    if isinstance(recv, Unk) and name == "isin" and getattr(recv, "of_frame", None) is not None and recv.term.op == "call" \
            and recv.term.args[0] == "columns" and args:
        # frame.columns.isin([...]): a column mask -- selects the named columns *in the table's own column order*
        try:
            names = list(pyval(args[0]))
        except NotConst:
            names = None
        if names is not None:
            u = Unk(call("colmask", recv.term, to_term(args[0])))
            u.colmask = (recv.of_frame, names)
            return u
    if isinstance(recv, Unk):
        it.record("call", "method:" + name, [recv] + args, _kwcopy(kwargs), node)
        if name in _STR_METHODS and recv.term.op == "call" and str(recv.term.args[0]).startswith(("str.", "builtins.str", "strformat")):
            # a method of a value that is itself the result of a string operation
            return Unk(call("str." + name, recv.term, *[to_term(a) for a in args]))
        if name == "reshape" and args:
            from . import imgdom as _img
            rs = _img.reshape_axes(it, recv, args[0] if len(args) == 1 else Seq(args, "tuple"), node)
            if rs is not None:
                return rs
        if name in ("copy", "to_numpy", "squeeze", "flatten", "ravel", "tolist"):
            return recv
        if name in ("min", "max", "sum", "mean", "std", "prod", "any", "all") and not getattr(recv, "attr_of", None):
            # x.min() is np.min(x)
            return call_numpy(it, "numpy." + name, "numpy", name, [recv] + list(args), kwargs, node, fr)
        if name == "astype":
            u = Unk(call(".astype", recv.term, *[to_term(a) for a in args]), space=recv.space)
            for k_ in ("rank", "pos_of"):
                if hasattr(recv, k_):
                    setattr(u, k_, getattr(recv, k_))
            cp_ = kwargs.get("copy")
            if cp_ is None or (is_pyconst(cp_) and pyval(cp_) is True):
                u.fresh = True  # astype returns a new array unless copy=False is asked for
            if args:
                u.elem_kind = _dtype_kind(args[0])
            return u
        if name == "transpose":
            u = Unk(call(".transpose", recv.term, *[to_term(a) for a in args]), space=None)
            if hasattr(recv, "rank"):
                u.rank = recv.rank
            return u
        return Unk(call("." + name, recv.term, *[to_term(a) for a in args],
                        *[mk("kw", const(k), to_term(v)) for k, v in kwargs.items()]),
                   space=recv.space if name in ("reset_index", "sort_values", "fillna", "round", "apply", "map") else None)
    if isinstance(recv, Indexer):
        return Unk(call("." + name, to_term(recv)))
    from . import imgdom as _img
    if isinstance(recv, _img.Filtered) and name in ("astype", "copy", "view"):
        it.record("call", "filtered." + name, [recv] + args, _kwcopy(kwargs), node)
        if name == "astype" and args and _runtime_dtype(args[0]):
            c_ = _img.Filtered(recv.src, recv.gain, recv.axes, recv.transformed, recv.real)
            c_.cast = to_term(args[0])  # converted to a type only known at run time (e.g. the input's): may truncate
            c_.cast_node = node
            return c_
        return recv
    if isinstance(recv, _img.Filtered) and name in ("mean", "sum", "std", "max", "min", "var") and not args:
        r_ = Unk(call("reduce:" + name, recv.term, const(None)))
        r_.scalar_of_image = True
        return r_
    raise Unsupported(f"method .{name} on {type(recv).__name__}", node)


def _flag(kwargs, key, default=False):
    v = kwargs.get(key)
    if v is None:
        return default
    try:
        return pyval(v)
    except NotConst:
        return "?"


def frame_method(it, f, name, args, kwargs, node, fr):
    it.record("call", "DataFrame." + name, [f] + args, _kwcopy(kwargs), node)
    if name == "copy":
        c = f.clone()
        c.copied_from = f
        return c
    if name == "to_numpy":
        return frame_values(it, f, node)
    if name == "fillna":
        v = argn(args, kwargs, 0, "value")
        tgt = f if _flag(kwargs, "inplace") is True else f.clone()
        if isinstance(v, DictV) and all(is_pyconst(x_) for x_ in v.items.values()):
            tgt.notes.append(("fillna", {k_: pyval(x_) for k_, x_ in v.items.items()}))  # per-column fill values: columns not listed stay unfilled
        else:
            tgt.notes.append(("fillna", pyval(v) if v is not None and is_pyconst(v) else "?"))
        return K(None) if tgt is f else tgt
    if name == "reset_index":
        drop = _flag(kwargs, "drop")
        inplace = _flag(kwargs, "inplace")
        tgt = f if inplace is True else f.clone()
        tgt.notes.append(("reset_index", drop))
        if drop is not True:
            if "index" not in tgt.cols:
                tgt.cols = {"index": call("old_index", const(0)), **tgt.cols}
                if tgt.order is not None:
                    tgt.order = ["index"] + tgt.order
        tgt.labels_positional = True
        tgt.lab_root = object()
        return K(None) if tgt is f else tgt
    if name == "sort_values":
        by = argn(args, kwargs, 0, "by")
        asc = kwargs.get("ascending", K(True))
        inplace = _flag(kwargs, "inplace")
        tgt = f if inplace is True else f.clone()
        tgt.notes.append(("sort_values", to_term(by), to_term(asc), to_term(kwargs.get("kind", K("quicksort")))))
        tgt.space = Space("sorted", parent=f.space, how="sort")
        tgt.labels_positional = _flag(kwargs, "ignore_index") is True
        if tgt.labels_positional:
            tgt.lab_root = object()
        return K(None) if tgt is f else tgt
    if name == "sort_index":
        tgt = f.clone()
        tgt.notes.append(("sort_index",))
        tgt.space = Space("sorted_index", parent=f.space, how="sort")
        return tgt
    if name == "duplicated":
        sub = argn(args, kwargs, 0, "subset")
        keep = kwargs.get("keep", K("first"))
        r = Val(call("duplicated", to_term(f), to_term(sub) if sub is not None else const(None), to_term(keep)), space=f.space, series=True)
        r.lab = _lib.label_key(f)
        r.is_mask_of = f
        return r
    if name == "drop_duplicates":
        sub = argn(args, kwargs, 0, "subset")
        keep = kwargs.get("keep", K("first"))
        inplace = _flag(kwargs, "inplace")
        tgt = f if inplace is True else f.clone()
        tgt.notes.append(("drop_duplicates", to_term(sub) if sub is not None else const(None), to_term(keep)))
        tgt.space = Space("dedup", parent=f.space, how="filter")
        tgt.labels_positional = False
        return K(None) if tgt is f else tgt
    if name == "astype":
        c = f.clone()
        c.notes.append(("astype", to_term(args[0]) if args else const(None)))
        d_ = args[0] if args else kwargs.get("dtype")
        per_col = None
        if isinstance(d_, DictV) and all(is_pyconst(k) or isinstance(k, (str, int)) for k in d_.items):
            per_col = {(pyval(k) if is_pyconst(k) else k): v for k, v in d_.items.items()}
        elif d_ is not None and _dtype_kind(d_) in ("int", "narrow", "cast"):
            per_col = {k: d_ for k in f.cols}
        if per_col:
            for k, dk in per_col.items():
                if k not in c.cols:
                    continue
                kind = _dtype_kind(dk)
                if kind == "int":
                    c.cols[k] = mk("int", c.cols[k])  # truncation toward zero
                elif kind in ("narrow", "cast"):
                    c.cols[k] = call("cast", c.cols[k], to_term(dk))  # a narrower / unknown type: not the identity
                elif kind == "str":
                    c.cols[k] = T("str", c.cols[k])
        if args and (isinstance(args[0], Ref) and args[0].name == "builtins.str" or is_pyconst(args[0]) and pyval(args[0]) in ("str", "string")):
            c.cols = {k: T("str", v) for k, v in f.cols.items()}  # every cell becomes its text
            if getattr(f, "kinds", None) is not None:
                c.kinds = {k: "object" for k in f.kinds}
        return c
    if name == "select_dtypes":
        kinds = getattr(f, "kinds", None)
        inc, exc = kwargs.get("include", args[0] if args else None), kwargs.get("exclude", args[1] if len(args) > 1 else None)

        def _sel(v):
            if v is None:
                return None
            if isinstance(v, Ref):
                return {"numpy.number": "number", "builtins.object": "object", "builtins.float": "number", "builtins.int": "number"}.get(v.name)
            if is_pyconst(v) and pyval(v) in ("number", "object"):
                return pyval(v)
            return "?"
        si, se = _sel(inc), _sel(exc)
        if kinds is None or f.order is None or "?" in (si, se) or (si is None and se is None):
            raise Unsupported("DataFrame.select_dtypes on a table whose column types are not known", node)
        keep = [c_ for c_ in f.order if (si is None or kinds.get(c_) == si) and (se is None or kinds.get(c_) != se)]
        r_ = frame_select(it, f, keep, node)
        r_.kinds = {c_: kinds[c_] for c_ in keep}
        return r_
    if name == "round":
        d = argn(args, kwargs, 0, "decimals", K(0))
        c = f.clone()
        dd = to_term(d)
        c.cols = {k: mk("round", v, dd) for k, v in f.cols.items()}
        c.notes.append(("round", dd))
        return c
    if name == "apply":
        func = argn(args, kwargs, 0, "func")
        axis = _flag(kwargs, "axis", 0)
        if len(args) > 1 and is_pyconst(args[1]):
            axis = pyval(args[1])
        if axis in (1, "columns") and isinstance(func, Func):
            row = f.clone(row=True)
            row.name = f.name + ".row"
            res = it.call(func, [row], {}, node, fr)
            if isinstance(res, Frame):
                out = res.clone(row=False)
                out.space = f.space
                out.notes = list(f.notes) + [("apply-rows", func.qual)]
                out.labels_positional = f.labels_positional
                return out
            if isinstance(res, (Val, Unk)):
                return Val(to_term(res), space=f.space, series=True)
            if isinstance(res, Seq):
                return Arr([to_term(x) for x in res.items], 2, f.space)
            raise Unsupported("row-wise apply returning an unsupported value", node)
        c = f.clone()
        c.notes.append(("apply-columns", to_term(func)))
        ft = to_term(func)
        if isinstance(func, Ref) and func.name == "pandas.to_numeric":
            it.record("api", "to_numeric", [f], kwargs, node)
            return c
        if isinstance(func, Func):
            # column-wise function: evaluate it once on a generic column
            colv = Val(sym("<column>"), space=f.space, series=True)
            res = it.call(func, [colv], {}, node, fr)
            rt = to_term(res)
            c.cols = {k: tm.subst(rt, {sym("<column>"): v}) for k, v in f.cols.items()}
            return c
        c.cols = {k: call("apply", ft, v) for k, v in f.cols.items()}
        return c
    if name in ("map", "applymap"):
        func = args[0]
        c = f.clone()
        it.record("api", "DataFrame." + name, [f], kwargs, node)
        if isinstance(func, Func):
            x = Val(sym("<cell>"))
            res = it.call(func, [x], {}, node, fr)
            rt = to_term(res)
            c.cols = {k: tm.subst(rt, {sym("<cell>"): v}) for k, v in f.cols.items()}
            c.notes.append(("map-cells", func.qual))
            return c
        c.cols = {k: call("map", to_term(func), v) for k, v in f.cols.items()}
        return c
    if name == "iterrows":
        u = Val(call("iterrows", const(f.name)))
        u.iter_kind = "iterrows"
        u.of_frame = f
        return u
    if name == "itertuples":
        u = Unk(call("itertuples", const(f.name)))
        u.of_frame = f
        u.iter_kind = "itertuples"
        u.with_index = _flag(kwargs, "index", True) is not False
        return u
    if name == "groupby":
        by = argn(args, kwargs, 0, "by")
        u = Val(call("groupby", const(f.name), to_term(by)))
        u.iter_kind = "groupby"
        u.of_frame = f
        u.by = by
        u.groupby_kwargs = kwargs
        return u
    if name == "merge":
        other = args[0]
        how = _flag(kwargs, "how", "inner")
        c = f.clone()
        c.space = Space("merge", parent=f.space, how="merge")
        c.notes.append(("merge", how, to_term(other)))
        c.merged_with = other
        if isinstance(other, Frame):
            for k in other.names():
                if k not in c.cols and not str(k).startswith("<"):
                    c.cols[k] = other.cols[k]
                    if c.order is not None:
                        c.order.append(k)
        return c
    if name == "drop":
        cols = kwargs.get("columns")
        idx = kwargs.get("index", args[0] if args and "columns" not in kwargs and _flag(kwargs, "axis", 0) in (0, "index") else None)
        if cols is None and args and _flag(kwargs, "axis", 0) in (1, "columns"):
            cols = args[0]
        inplace = _flag(kwargs, "inplace")
        tgt = f if inplace is True else f.clone()
        if cols is not None:
            try:
                names = pyval(cols)
            except NotConst:
                raise Unsupported("drop(columns=<non-literal>)", node)
            names = [names] if isinstance(names, str) else names
            for n in names:
                tgt.cols.pop(n, None)
                if tgt.order is not None and n in tgt.order:
                    tgt.order.remove(n)
        if idx is not None:
            it.record("index", "drop-labels", [f, idx], {}, node)
            tgt.space = Space("dropped", parent=f.space, how="filter", key=to_term(idx).key())
            tgt.dropped_by = idx
            tgt.labels_positional = False
        return K(None) if tgt is f else tgt
    if name == "rename":
        cols = kwargs.get("columns")
        if cols is None and args and isinstance(args[0], DictV):
            cols = args[0]
        if isinstance(cols, DictV):
            mp = {k: pyval(v) for k, v in cols.items.items()}
            tgt = f if _flag(kwargs, "inplace") is True else f.clone()
            tgt.cols = {mp.get(k, k): v for k, v in tgt.cols.items()}
            if tgt.order is not None:
                tgt.order = [mp.get(k, k) for k in tgt.order]
            return K(None) if tgt is f else tgt
        raise Unsupported("rename with non-literal mapping", node)
    if name == "reindex":
        cols = kwargs.get("columns")
        if cols is not None and is_pyconst(cols):
            return frame_select(it, f, list(pyval(cols)), node)
    if name in ("head", "tail", "sample", "dropna", "query"):
        c = f.clone()
        c.space = Space(name, parent=f.space, how="filter")
        c.notes.append((name,))
        return c
    if name == "isin":
        return opaque(it, "DataFrame.isin", [f] + args, kwargs, space=f.space)
    if name in ("to_csv", "to_string", "info", "describe", "to_records"):
        return opaque(it, "DataFrame." + name, [f] + args, kwargs)
    if name == "equals":
        return opaque(it, "DataFrame.equals", [f] + args, kwargs)
    if name == "update":
        return K(None)
    if name in ("sum", "mean", "max", "min", "nunique", "count", "any", "all"):
        return opaque(it, "DataFrame." + name, [f] + args, kwargs)
    if name == "insert" and len(args) >= 3 and is_pyconst(args[0]) and is_pyconst(args[1]):
        pos, cn = pyval(args[0]), pyval(args[1])
        f.cols[cn] = to_term(args[2])
        if f.order is not None:
            f.order.insert(pos, cn)
        return K(None)
    if name == "items":
        return Seq([Seq([K(k), series_of(f, k)], "tuple") for k in f.names()], "list")
    if name == "set_index":
        c = f.clone()
        c.notes.append(("set_index",))
        c.labels_positional = False
        return c
    if name == "get" and args and is_pyconst(args[0]):
        try:
            return series_of(f, pyval(args[0]))
        except KeyError:
            return argn(args, kwargs, 1, "default", K(None))
    if name == "assign" and not args:
        # df.assign(col=value, ...): a new table with these columns set, exactly as `c = df.copy(); c[col] = value`
        c = f.clone()
        c.fresh = True
        for k_, v_ in list(kwargs.items()):
            _lib.setitem(it, c, K(k_), v_, node, fr)
        return c
    if name in ("add", "sub", "mul", "div", "truediv", "subtract", "multiply", "divide", "radd", "rmul") and len(args) == 1 \
            and not any(k_ in kwargs for k_ in ("axis", "level", "fill_value")):
        # frame.add(other) is frame + other: pandas pairs rows by label and columns by name (E17 applies)
        opn_ = {"add": "add", "radd": "add", "sub": "sub", "subtract": "sub", "mul": "mul", "multiply": "mul", "rmul": "mul", "div": "div", "truediv": "div", "divide": "div"}[name]
        return _lib.arith(it, opn_, f, args[0], node)
    if name in ("isna", "isnull", "notna", "notnull") and not args:
        # cell by cell: is the value missing?  (a table of flags with the same rows, labels and columns)
        c = f.clone()
        neg = name in ("notna", "notnull")
        c.cols = {k: (mk("not", T("isnan", v)) if neg else T("isnan", v)) for k, v in f.cols.items()}
        c.notes = list(f.notes) + [(name,)]
        c.kinds = {k: "bool" for k in f.cols}
        c.flags_of = f
        return c
    raise Unsupported(f"DataFrame.{name} is not modelled", node)


_STR_METHODS = {n for n in dir(str) if not n.startswith("_")} - {"count", "index"}


def val_method(it, v, name, args, kwargs, node, fr):
    it.record("call", "value." + name, [v] + args, _kwcopy(kwargs), node)
    if getattr(v, "iter_kind", None) in ("groupby", "groupby-column") and getattr(v, "of_frame", None) is not None \
            and name in ("transform", "cumcount", "cumsum", "cummax", "cummin", "rank", "ngroup", "shift", "diff"):
        # one value per row of the grouped table, labelled like that table (whatever the function computes per group)
        f_ = v.of_frame
        r_ = Val(call("." + name, v.term, *[to_term(a) for a in args]), space=f_.space, series=True)
        r_.lab = _lib.label_key(f_)
        r_.per_row_of = f_
        return r_
    if is_pyconst(v):
        pv = pyval(v)
        if isinstance(pv, str):
            if name == "join" and len(args) == 1 and isinstance(args[0], Seq) and not all(is_pyconst(x) for x in args[0].items):
                # sep.join(<enumerated items>): the items' texts with the separator between them
                return Val(call("str.join", const(pv), T("vec", *[to_term(x) for x in args[0].items])))
            if name == "format" and kwargs:
                # '{name} #{number}'.format(name=a, number=b): the same text as the positional template '{0} #{1}'.format(a, b)
                import string as _string
                names_ = list(kwargs.keys())
                try:
                    parts_ = []
                    for lit, field, spec, conv in _string.Formatter().parse(pv):
                        parts_.append(lit.replace("{", "{{").replace("}", "}}"))
                        if field is not None:
                            head_ = field.split(".")[0].split("[")[0]
                            if head_ in names_:
                                field = str(len(args) + names_.index(head_)) + field[len(head_):]
                            parts_.append("{" + field + ("!" + conv if conv else "") + (":" + spec if spec else "") + "}")
                    pv = "".join(parts_)
                    v = K(pv)
                    args = list(args) + [kwargs[n_] for n_ in names_]
                    kwargs = {}
                except (ValueError, KeyError):
                    raise Unsupported("format string with keyword fields not recognised", node)
            try:
                cargs = [pyval(a) for a in args]
                r = getattr(pv, name)(*cargs)
                return from_py(r)
            except (NotConst, AttributeError, TypeError, KeyError, IndexError):
                return Unk(call("str." + name, to_term(v), *[to_term(a) for a in args]))
        import re as _re
        if isinstance(pv, _re.Pattern) and name in ("search", "match", "fullmatch", "findall", "sub", "split") and not kwargs:
            try:
                cargs = [pyval(a) for a in args]
            except NotConst:
                return Unk(call("re." + name, const(pv.pattern), *[to_term(a) for a in args]))
            r_ = getattr(pv, name)(*cargs)
            if name in ("search", "match", "fullmatch"):
                if r_ is None:
                    return K(None)
                mv = Seq([K(g) for g in r_.groups()], "match")
                mv.match0 = r_.group(0)
                return mv
            return from_py(r_)
    keep = ("copy", "astype", "to_numpy", "flatten", "ravel", "squeeze", "reset_index", "tolist", "to_list", "view",
            "reshape", "item", "conj")
    if name == "reshape" and args:
        from . import imgdom as _img
        rs = _img.reshape_axes(it, v, args[0] if len(args) == 1 else Seq(args, "tuple"), node)
        if rs is not None:
            return rs
    if name in keep:
        if name == "reshape":
            it.record("reshape", "reshape", [v] + args, kwargs, node)
        r = Val(v.term, space=v.space, pos_of=v.pos_of, series=v.series and name in ("copy", "astype", "reset_index"))
        if getattr(v, "lab", None) is not None and name in ("copy", "astype"):
            r.lab = v.lab
        if getattr(v, "lab", None) is not None and name == "reset_index":
            r.lab = ("pos", object())
        if name in ("reshape", "view", "squeeze") and getattr(v, "view_of", None) is not None:
            r.view_of = v.view_of  # still a view of the same column
        for a in ("of_frame", "colname", "sorted_by", "descending", "alloc", "mask", "axes", "alloc_shape"):
            if hasattr(v, a):
                setattr(r, a, getattr(v, a))
        if name == "astype":
            r.astype = args[0] if args else None
            if args and (isinstance(args[0], Ref) and args[0].name in ("builtins.int", "numpy.int32", "numpy.int64", "numpy.int_")
                         or is_pyconst(args[0]) and pyval(args[0]) in ("int", "int32", "int64")):
                r.term = mk("int", v.term)
            elif args and _runtime_dtype(args[0]) and not _dtype_of_float_value(args[0]):
                # the target type is itself data (another array's dtype): the cast may truncate -- not the identity
                r.term = call("cast", v.term, to_term(args[0]))
        return r
    if name in ("mod", "eq", "ne", "lt", "le", "gt", "ge", "add", "sub", "mul", "div", "truediv", "floordiv", "pow",
                "multiply", "subtract", "divide"):
        opn = {"truediv": "div", "multiply": "mul", "subtract": "sub", "divide": "div"}.get(name, name)
        return arith(it, opn, v, args[0], node)
    if name in ("abs",):
        return Val(mk("abs", v.term), space=v.space, series=v.series)
    if name == "round":
        d = argn(args, kwargs, 0, "decimals", K(0))
        return Val(mk("round", v.term, to_term(d)), space=v.space, series=v.series)
    if name == "clip":
        lo, hi = to_term(argn(args, kwargs, 0, "lower", K(None))), to_term(argn(args, kwargs, 1, "upper", K(None)))
        return Val(T("clip", v.term, lo, hi), space=v.space, series=v.series)
    if name == "fillna":
        r = Val(v.term, space=v.space, series=v.series)
        r.fillna = args[0] if args else kwargs.get("value")
        # inplace=True on a column taken out of a table (`df[c].fillna(0, inplace=True)`) fills that temporary only: under copy-on-write
        # (pandas 3) the table is not touched, and the statement's value is None -- which is what discarding `r` amounts to
        kwargs.get("inplace")
        return r
    if name == "isin":
        r = Val(call("isin", v.term, to_term(args[0])), space=v.space, series=True)
        r.isin = (v, args[0])
        return r
    if name in ("unique",):
        u = Unk(call("unique", v.term))
        u.unique_of = v
        return u
    if name in ("max", "min", "sum", "mean", "std", "median", "nunique", "count", "any", "all", "argmax", "argmin", "idxmax", "idxmin"):
        r = Unk(call(f"reduce:{name}", v.term, const(None)))
        r.reduced = (name, v, None)
        if name in ("any", "all") and holds_positions(v):
            r.any_of_positions = True
        if (getattr(v, "rank", None) or 0) >= 2 or getattr(v, "axes", None) is not None:
            r.scalar_of_image = True  # one number computed from a whole image / volume
        return r
    if name in ("map", "apply"):
        func = args[0]
        if isinstance(func, Func):
            res = it.call(func, [Val(v.term)], {}, node, fr)
            r = Val(to_term(res), space=v.space, series=True)
            r.mapped = (func, v)
            return r
        if isinstance(func, DictV):
            t = call("absent_key", v.term)
            for k, x in reversed(list(func.items.items())):
                t = mk("ite", mk("eq", v.term, const(k)), to_term(x), t)
            return Val(t, space=v.space, series=True)
        return Val(call("map", to_term(func), v.term), space=v.space, series=True)
    if name == "factorize":
        r = Val(call("factorize", v.term), space=v.space)
        return Seq([r, Unk(call("factorize_uniques", v.term))], "tuple")
    if name == "to_integral_value":
        mode = kwargs.get("rounding", args[0] if args else None)
        m = pyval(mode) if mode is not None and is_pyconst(mode) else (mode.name.split(".")[-1] if isinstance(mode, Ref) else "?")
        if m == "ROUND_HALF_UP":
            r = Val(mk("rhu", v.term))
        else:
            r = Val(call("to_integral:" + str(m), v.term))
        r.decimal_rounded = m
        return r
    if name == "sort_values":
        r = Val(v.term, space=Space("sorted", parent=v.space, how="sort"), series=True)
        r.sorted_self = kwargs
        return r
    if name in ("nonzero",):
        return call_numpy(it, "numpy.nonzero", "numpy", "nonzero", [v], {}, node, fr)
    if name == "argsort":
        return call_numpy(it, "numpy.argsort", "numpy", "argsort", [v], {}, node, fr)
    if name in ("str",):
        return Method(v, "str")
    if name in _STR_METHODS:
        return Val(call("str." + name, v.term, *[to_term(a) for a in args]))
    if name in ("append", "extend", "add", "update"):
        return K(None)
    r = Unk(call("." + name, v.term, *[to_term(a) for a in args]), space=None)
    return r


_INT_T = ("builtins.int", "numpy.int32", "numpy.int64", "numpy.int_", "numpy.intp", "numpy.uint32", "numpy.uint64")
_NARROW_T = ("numpy.int8", "numpy.int16", "numpy.uint8", "numpy.uint16", "numpy.float16", "builtins.bool", "numpy.bool_")
_FLOAT_T = ("builtins.float", "numpy.float64", "numpy.float32", "numpy.double", "numpy.single", "numpy.float_")


def _dtype_kind(d):
    """'float' (keeps every value of the abstract real domain), 'int' (truncates), 'narrow' (a small range / precision), 'str', 'cast' (not known)"""
    n = d.name if isinstance(d, Ref) else (pyval(d) if is_pyconst(d) else None)
    if n is None:
        return "cast"
    n = str(n)
    short = n.rsplit(".", 1)[-1]
    if n in _FLOAT_T or short in ("float", "float64", "float32", "double", "f8", "f4"):
        return "float"
    if n in _INT_T or short in ("int", "int32", "int64", "i4", "i8", "Int64"):
        return "int"
    if n in _NARROW_T or short in ("int8", "int16", "uint8", "uint16", "float16", "bool"):
        return "narrow"
    if short in ("str", "string", "object", "O", "category"):
        return "str" if short in ("str", "string") else "float"
    return "cast"


def _dtype_of_float_value(d):
    """`y.dtype` of a value y that is floating point whatever the inputs are (a square root, a quotient, an exponential ... of anything): a conversion
    to it keeps every value of the abstract real domain"""
    t = to_term(d)
    if not (t.op == "call" and str(t.args[0]) in (".dtype", "dtype") and len(t.args) >= 2):
        return False
    y = t.args[1]
    return y.op in ("sqrt", "div", "exp", "log", "sin", "cos", "tan", "arccos", "arcsin", "arctan", "arctan2", "radians", "degrees", "float")


def _runtime_dtype(d):
    """a dtype that is not written in the source (x.dtype of some array, a parameter): unknown at analysis time"""
    if isinstance(d, Ref) or is_pyconst(d):
        return False
    return isinstance(d, (Val, Unk))


from . import lib as _lib  # noqa: E402


def arr_method(it, a, name, args, kwargs, node, fr):
    it.record("call", "ndarray." + name, [a] + args, _kwcopy(kwargs), node)
    if name in ("copy", "astype", "squeeze", "to_numpy", "view"):
        c = Arr(a.cols, a.ndim, a.space, a.single_row)
        c.__dict__.update({k: v for k, v in a.__dict__.items() if k not in ("cols",)})
        c.cols = list(a.cols)
        c.notes = list(a.notes) + ([("astype", to_term(args[0]))] if name == "astype" and args else [])
        if name == "astype" and args and (isinstance(args[0], Ref) and args[0].name in ("builtins.int", "numpy.int32", "numpy.int64", "numpy.int_")):
            c.cols = [mk("int", x) for x in a.cols]
        elif name == "astype" and args and _runtime_dtype(args[0]):
            c.cols = [call("cast", x, to_term(args[0])) for x in a.cols]
        return c
    if name == "reshape":
        shape = args[0] if len(args) == 1 else Seq(args, "tuple")
        c = Arr(a.cols, a.ndim, a.space, a.single_row)
        c.__dict__.update({k: v for k, v in a.__dict__.items() if k not in ("cols",)})
        c.cols = list(a.cols)
        c.notes = list(a.notes) + [("reshape", to_term(shape))]
        c.reshape = shape
        c.reshaped_from = a
        it.record("reshape", "reshape", [a, shape], kwargs, node)
        if a.ndim == 1 and isinstance(shape, Seq) and len(shape.items) == 2 and is_pyconst(shape.items[0]) and pyval(shape.items[0]) == 1:
            c.ndim, c.single_row = 2, True
        return c
    if name in ("flatten", "ravel"):
        if a.single_row or a.ndim == 1:
            return Arr(a.cols, 1)
        return Unk(call("flatten", to_term(a)))
    if name in ("sum", "mean", "max", "min", "any", "all", "std", "prod"):
        return reduce_(it, name, a, argn(args, kwargs, 0, "axis"), kwargs, node)
    if name in ("argmax", "argmin"):
        r = Unk(call("reduce:" + name, to_term(a), to_term(argn(args, kwargs, 0, "axis", K(None)))))
        if argn(args, kwargs, 0, "axis") is None:
            r.scalar_pos = True  # a (flat) position: 0 is the first element, not "none"
        return r
    if name == "tolist":
        if a.ndim == 1:
            return Seq([Val(c) for c in a.cols], "list")
        return a
    if name == "dot" and args:
        return call_numpy(it, "numpy.dot", "numpy", "dot", [a, args[0]], {}, node, fr)
    if name == "transpose":
        return Unk(call("transposed", to_term(a)), space=a.space)
    if name == "fill" and args:
        a.cols[:] = [to_term(args[0])] * len(a.cols)
        return K(None)
    if name == "round":
        d = to_term(argn(args, kwargs, 0, "decimals", K(0)))
        return Arr([mk("round", c, d) for c in a.cols], a.ndim, a.space, a.single_row)
    return Unk(call("." + name, to_term(a), *[to_term(x) for x in args]))


def rot_method(it, r, name, args, kwargs, node):
    it.record("call", "Rotation." + name, [r] + args, _kwcopy(kwargs), node)
    if name == "inv":
        return Rot(T("transpose", r.term), space=r.space)
    if name == "apply":
        v = args[0]
        inverse = _flag(kwargs, "inverse", False)
        m = T("transpose", r.term) if inverse is True else r.term
        a = as_arr(v) if not isinstance(v, Val) else None
        if a is None or len(a.cols) != 3:
            vt = to_term(v)
            u = Unk(T("rotapply", m, vt), space=_space(r, v))
            u.rotapply = (m, v)
            return u
        vec = T("vec", *a.cols)
        res = T("rotapply", m, vec)
        nd = 2 if (a.ndim == 2 or r.space is not None or True) else 1
        # scipy returns (3,) for a single rotation and a single vector, else (N,3)
        single = (a.ndim == 1) and not getattr(r, "batched", False) and r.space is None and not getattr(r, "from_2d", False)
        out = Arr([T("item", res, 0), T("item", res, 1), T("item", res, 2)], 2, _space(r, a))
        out.single_row = (a.single_row or (a.ndim == 1)) and not getattr(r, "per_row", False)
        out.rotapply = (m, a)
        return out
    if name == "as_euler":
        seq = argn(args, kwargs, 0, "seq")
        deg = argn(args, kwargs, 1, "degrees", K(False))
        s, d = pyval(seq), bool(pyval(deg))
        e = T("as_euler", const(s), r.term, const(d))
        out = Arr([T("item", e, 0), T("item", e, 1), T("item", e, 2)], 2, r.space)
        out.as_euler = (s, r, d)
        return out
    if name == "as_matrix":
        u = Unk(r.term, space=r.space)
        u.is_matrix = True
        u.rot = r
        return u
    if name == "as_quat":
        q = T("quat", r.term, const(_flag(kwargs, "canonical", False) is True), const(_flag(kwargs, "scalar_first", False) is True))
        out = Arr([T("item", q, i) for i in range(4)], 2, r.space)
        out.as_quat = r
        out.quat_kwargs = kwargs
        return out
    if name in ("magnitude",):
        return Val(call("rot_magnitude", r.term), space=r.space)
    if name == "as_rotvec":
        return Unk(call("as_rotvec", r.term), space=r.space)
    if name == "__len__":
        return Val((r.space.nrows() if r.space else call("nrows", const(0))))
    raise Unsupported(f"Rotation.{name}", node)


def seq_method(it, s, name, args, kwargs, node, fr):
    if s.kind == "match":
        if name == "groups":
            return Seq(list(s.items), "tuple")
        if name == "group":
            i = pyval(args[0]) if args else 0
            return K(s.match0) if i == 0 else s.items[i - 1]
    if name == "append":
        s.items.append(args[0])
        it.record("call", "list.append", [s] + args, {}, node)
        return K(None)
    if name == "add" and s.kind == "set" and len(args) == 1 and is_pyconst(args[0]) and all(is_pyconst(x) for x in s.items) and it.store_guard() is None:
        if pyval(args[0]) not in [pyval(x) for x in s.items]:
            s.items.append(args[0])
        return K(None)
    if getattr(it, "literal", False) and s.kind == "list":
        # literal-input mode: the list is the list (queue / stack operations are followed exactly)
        idx_ = pyval(args[0]) if args and is_pyconst(args[0]) else None
        if name == "pop" and (not args or isinstance(idx_, int)):
            if not s.items:
                raise Unsupported("pop from an empty list on the followed path", node)
            return s.items.pop(*([idx_] if args else []))
        if name == "insert" and len(args) == 2 and isinstance(idx_, int):
            s.items.insert(idx_, args[1])
            return K(None)
        if name == "reverse" and not args:
            s.items.reverse()
            return K(None)
        if name == "clear" and not args:
            del s.items[:]
            return K(None)
    if name == "extend":
        items = it.iter_items(args[0])
        if items is None:
            s.items.append(Unk(call("extended", to_term(args[0]))))
        else:
            s.items.extend(items)
        return K(None)
    if name in ("add", "update"):
        it.record("call", "set." + name, [s] + args, {}, node)
        s.items.append(args[0])
        return K(None)
    if name in ("intersection", "difference", "union") and args and all(is_pyconst(x) for x in s.items):
        other = it.iter_items(args[0])
        if other is not None and all(is_pyconst(x) for x in other):
            mine, oth = [pyval(x) for x in s.items], [pyval(x) for x in other]
            if name == "intersection":
                res = [x for x in mine if x in oth]  # pandas Index.intersection(sort=False) keeps the order of self
            elif name == "difference":
                res = sorted(x for x in mine if x not in oth)
            else:
                res = mine + [x for x in oth if x not in mine]
            return Seq([K(x) for x in res], "list")
    if name == "index" and args and is_pyconst(args[0]) and all(is_pyconst(x) for x in s.items):
        return K([pyval(x) for x in s.items].index(pyval(args[0])))
    if name == "copy":
        return Seq(s.items, s.kind)
    if name == "sort":
        it.record("call", "list.sort", [s], _kwcopy(kwargs), node)
        s.sorted = True
        s.sort_kwargs = kwargs
        return K(None)
    if name == "join":
        return Val(call("join", *[to_term(x) for x in s.items]))
    if name in ("tolist", "to_list"):
        return s
    if name == "count":
        return Val(call("count", to_term(s)))
    a = as_arr(s)
    if a is not None:
        return arr_method(it, a, name, args, kwargs, node, fr)
    return Unk(call("." + name, to_term(s), *[to_term(x) for x in args]))


def dict_method(it, d, name, args, kwargs, node, fr):
    if name == "items":
        return Seq([Seq([K(k), v], "tuple") for k, v in d.items.items()], "list")
    if name == "keys":
        return Seq([K(k) for k in d.items], "list")
    if name == "values":
        return Seq(list(d.items.values()), "list")
    if name == "get":
        try:
            k = pyval(args[0])
        except NotConst:
            return Unk(call("dict.get", to_term(d), to_term(args[0])))
        return d.items.get(k, args[1] if len(args) > 1 else K(None))
    if name == "update":
        if args and isinstance(args[0], DictV):
            d.items.update(args[0].items)
        d.items.update(kwargs)
        return K(None)
    if name == "copy":
        return DictV(d.items)
    if name == "pop":
        k = pyval(args[0])
        return d.items.pop(k, args[1] if len(args) > 1 else K(None))
    if name == "setdefault":
        k = pyval(args[0])
        return d.items.setdefault(k, args[1] if len(args) > 1 else K(None))
    raise Unsupported(f"dict.{name}", node)
