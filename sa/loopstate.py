"""Loop state: which variables of a function carry a value from one iteration of a loop into the next, and where their life starts.

The interpreter summarises a loop by one generic iteration, so a value that must be fresh per iteration (per tomogram, per group, per file) and
survives into the next one -- or an accumulator that is started again on every iteration -- is invisible to it.  This module extracts, from the
syntax tree alone, three facts per function and variable and lets a rule compare them with the confirmed reference of the pinned tree
(`spec/loopstate_baseline.py`):

  init depths    the loop depths (number of enclosing `for` / `while`) of the plain assignments that start the variable's life (`v = <expr without v>`)
  update depths  the loop depths of the statements that update it in place (`v += ..`, `v = f(v)`, `v[..] = ..`, `v.append(..)`, ...)
  carried reads  reads inside a loop that may see the value a *previous* iteration left: the variable is assigned somewhere in the loop body, but not on
                 every path from the top of the body to the read.  Each is classified:
                   self-update        the read is part of the statement that assigns the variable (`n = n + 1`, `n += 1`)
                   guarded-update     the read is the test of the `if` that assigns it ("best so far")
                   explicit-previous  the variable is assigned unconditionally at the top level of the loop body (after the read): a deliberate "previous value"
                   accumulator-read   the loop keeps the variable by `n += ..` / `n = f(n)` somewhere in its body (a counter, a running total) and reads it elsewhere
                   stale              none of these: assigned in a branch (or a nested loop) only and read elsewhere -- on an iteration that does not take
                                      the branch, the read sees what an earlier iteration stored
"""
import ast

_MUTATORS = {"append", "extend", "insert", "pop", "remove", "clear", "update", "add", "discard", "setdefault", "popitem", "sort", "reverse", "fill",
             "resize", "put", "itemset", "appendleft", "popleft", "drop", "rename", "reset_index", "set_index", "sort_values", "fillna", "dropna"}


def _own(fn):
    out, stack = [], list(fn.body)
    while stack:
        n = stack.pop()
        if isinstance(n, (ast.FunctionDef, ast.AsyncFunctionDef, ast.Lambda, ast.ClassDef)):
            continue
        out.append(n)
        stack.extend(ast.iter_child_nodes(n))
    return out


def _target_names(t):
    """names bound by an assignment target (tuple targets included; subscripts / attributes bind nothing)"""
    if isinstance(t, ast.Name):
        return [t.id]
    if isinstance(t, (ast.Tuple, ast.List)):
        return [n for e in t.elts for n in _target_names(e)]
    if isinstance(t, ast.Starred):
        return _target_names(t.value)
    return []


def _base_name(e):
    """name of the object a subscript / attribute store writes into (`v[..] = ..`, `v.a = ..`, `v[i][j] = ..`)"""
    while isinstance(e, (ast.Subscript, ast.Attribute)):
        e = e.value
    return e.id if isinstance(e, ast.Name) else None


def _loads(e):
    """names read by an expression; names bound by comprehensions / lambdas inside it are excluded"""
    out = []

    def walk(n, bound):
        if isinstance(n, ast.Name):
            if isinstance(n.ctx, ast.Load) and n.id not in bound:
                out.append(n)
            return
        if isinstance(n, (ast.ListComp, ast.SetComp, ast.GeneratorExp, ast.DictComp)):
            b = set(bound)
            for g in n.generators:
                walk(g.iter, b)
                b |= set(_target_names(g.target))
                for c in g.ifs:
                    walk(c, b)
            for part in ([n.key, n.value] if isinstance(n, ast.DictComp) else [n.elt]):
                walk(part, b)
            return
        if isinstance(n, ast.Lambda):
            b = set(bound) | {a.arg for a in n.args.args + n.args.kwonlyargs + n.args.posonlyargs}
            walk(n.body, b)
            return
        if isinstance(n, (ast.FunctionDef, ast.AsyncFunctionDef, ast.ClassDef)):
            return
        for c in ast.iter_child_nodes(n):
            walk(c, bound)

    if e is not None:
        walk(e, set())
    return out


def _stores_in(stmts):
    """every name (re)bound anywhere in the statements (nested blocks included, nested functions excluded)"""
    names = set()
    stack = list(stmts)
    while stack:
        n = stack.pop()
        if isinstance(n, (ast.FunctionDef, ast.AsyncFunctionDef, ast.Lambda, ast.ClassDef)):
            continue
        if isinstance(n, ast.Name) and isinstance(n.ctx, (ast.Store, ast.Del)):
            names.add(n.id)
        if isinstance(n, (ast.ListComp, ast.SetComp, ast.GeneratorExp, ast.DictComp)):
            continue  # comprehension targets are local to it
        stack.extend(ast.iter_child_nodes(n))
    return names


def _mutated_in(stmts):
    """names updated in place anywhere in the statements: augmented assignment, subscript / attribute store, mutating method call"""
    names = set()
    stack = list(stmts)
    while stack:
        n = stack.pop()
        if isinstance(n, (ast.FunctionDef, ast.AsyncFunctionDef, ast.Lambda, ast.ClassDef)):
            continue
        if isinstance(n, ast.AugAssign):
            b = _base_name(n.target)
            if b:
                names.add(b)
        if isinstance(n, (ast.Assign, ast.AnnAssign)):
            for t in (n.targets if isinstance(n, ast.Assign) else [n.target]):
                for e in ([t] if not isinstance(t, (ast.Tuple, ast.List)) else t.elts):
                    if isinstance(e, (ast.Subscript, ast.Attribute)):
                        b = _base_name(e)
                        if b:
                            names.add(b)
        if isinstance(n, ast.Call) and isinstance(n.func, ast.Attribute) and n.func.attr in _MUTATORS and isinstance(n.func.value, ast.Name):
            names.add(n.func.value.id)
        stack.extend(ast.iter_child_nodes(n))
    return names


def _leaves(stmts):
    """does the block always leave the enclosing sequence (its last statement is continue / break / return / raise)?"""
    return bool(stmts) and isinstance(stmts[-1], (ast.Continue, ast.Break, ast.Return, ast.Raise))


class _Scan:
    """one pass over a loop body in execution order with the set of names certainly assigned in this iteration"""

    def __init__(self, loop):
        self.loop = loop
        self.assigned = _stores_in(loop.body) | (set(_target_names(loop.target)) if isinstance(loop, ast.For) else set())
        self.reads = []  # (name node, statement, enclosing ifs [(if node, arm)])
        self.self_updated = set()
        for n in ast.walk(loop):
            if isinstance(n, ast.AugAssign) and isinstance(n.target, ast.Name):
                self.self_updated.add(n.target.id)
            elif isinstance(n, ast.Assign):
                rhs = {x.id for x in _loads(n.value)}
                for t in n.targets:
                    self.self_updated |= set(_target_names(t)) & rhs
        self.top_assigned = set()
        for st in loop.body:
            if isinstance(st, (ast.Assign, ast.AnnAssign, ast.AugAssign)):
                for t in (st.targets if isinstance(st, ast.Assign) else [st.target]):
                    self.top_assigned |= set(_target_names(t))
            if isinstance(st, ast.For):
                pass

    def expr(self, e, defined, st, ifs):
        for n in _loads(e):
            if n.id in self.assigned and n.id not in defined:
                self.reads.append((n, st, list(ifs)))

    def block(self, stmts, defined, ifs):
        for st in stmts:
            defined = self.stmt(st, defined, ifs)
        return defined

    def stmt(self, st, defined, ifs):
        if isinstance(st, ast.Assign):
            self.expr(st.value, defined, st, ifs)
            for t in st.targets:
                for e in ast.walk(t):
                    if isinstance(e, ast.Subscript):
                        self.expr(e.slice, defined, st, ifs)
                        self.expr(e.value, defined, st, ifs)
                    elif isinstance(e, ast.Attribute):
                        self.expr(e.value, defined, st, ifs)
            d = set(defined)
            for t in st.targets:
                d |= set(_target_names(t))
            return d
        if isinstance(st, ast.AnnAssign):
            self.expr(st.value, defined, st, ifs)
            return set(defined) | set(_target_names(st.target))
        if isinstance(st, ast.AugAssign):
            self.expr(st.value, defined, st, ifs)
            if isinstance(st.target, ast.Name):
                if st.target.id in self.assigned and st.target.id not in defined:
                    self.reads.append((st.target, st, list(ifs)))
                return set(defined) | {st.target.id}
            self.expr(st.target.value if isinstance(st.target, (ast.Subscript, ast.Attribute)) else None, defined, st, ifs)
            if isinstance(st.target, ast.Subscript):
                self.expr(st.target.slice, defined, st, ifs)
            return defined
        if isinstance(st, ast.If):
            self.expr(st.test, defined, st, ifs + [(st, "test")])
            d1 = self.block(st.body, set(defined), ifs + [(st, "body")])
            d2 = self.block(st.orelse, set(defined), ifs + [(st, "orelse")])
            if _leaves(st.body) and not _leaves(st.orelse):
                return d2
            if _leaves(st.orelse) and not _leaves(st.body):
                return d1
            return d1 & d2
        if isinstance(st, (ast.For, ast.AsyncFor)):
            self.expr(st.iter, defined, st, ifs)
            self.block(st.body, set(defined) | set(_target_names(st.target)), ifs)
            self.block(st.orelse, set(defined), ifs)
            return defined
        if isinstance(st, ast.While):
            self.expr(st.test, defined, st, ifs)
            self.block(st.body, set(defined), ifs)
            self.block(st.orelse, set(defined), ifs)
            return defined
        if isinstance(st, (ast.With, ast.AsyncWith)):
            d = set(defined)
            for it in st.items:
                self.expr(it.context_expr, d, st, ifs)
                if it.optional_vars is not None:
                    d |= set(_target_names(it.optional_vars))
            return self.block(st.body, d, ifs)
        if isinstance(st, ast.Try):
            d = self.block(st.body, set(defined), ifs)
            outs = [self.block(st.orelse, set(d), ifs)]
            for h in st.handlers:
                dh = set(defined) | ({h.name} if h.name else set())
                outs.append(self.block(h.body, dh, ifs))
            d = set.intersection(*outs) if outs else d
            return self.block(st.finalbody, d, ifs)
        if isinstance(st, (ast.FunctionDef, ast.AsyncFunctionDef, ast.ClassDef)):
            return set(defined) | {st.name}
        if isinstance(st, (ast.Import, ast.ImportFrom)):
            return set(defined) | {(a.asname or a.name).split(".")[0] for a in st.names}
        if isinstance(st, ast.Delete):
            return defined
        if hasattr(ast, "Match") and isinstance(st, ast.Match):
            self.expr(st.subject, defined, st, ifs)
            outs = [self.block(c.body, set(defined) | _stores_in([c.pattern]), ifs) for c in st.cases]
            return set.intersection(*outs) & defined if outs else defined
        # Expr, Return, Raise, Assert, Global, Nonlocal, Pass, Break, Continue
        for c in ast.iter_child_nodes(st):
            if isinstance(c, ast.expr):
                self.expr(c, defined, st, ifs)
        # walrus targets
        return set(defined) | {n.target.id for n in ast.walk(st) if isinstance(n, ast.NamedExpr) and isinstance(n.target, ast.Name)}


def _classify(name, node, st, ifs, scan):
    if isinstance(st, ast.AugAssign) and _base_name(st.target) == name:
        return "self-update"
    if isinstance(st, (ast.Assign, ast.AnnAssign)):
        ts = st.targets if isinstance(st, ast.Assign) else [st.target]
        if any(name in _target_names(t) for t in ts):
            return "self-update"
    for if_, arm in ifs:
        if arm == "test" and name in _stores_in(if_.body + if_.orelse):
            return "guarded-update"
    # read inside the arm of an `if` whose test reads the name and which assigns it: still the guarded update (`if best is None or d < best_d: best_d = d`)
    for if_, arm in ifs:
        if arm in ("body", "orelse") and name in _stores_in(if_.body + if_.orelse) and any(n.id == name for n in _loads(if_.test)):
            return "guarded-update"
    if name in scan.top_assigned:
        return "explicit-previous"
    if name in scan.self_updated:
        return "accumulator-read"  # a counter / running total the loop keeps by `n += ..` / `n = f(n)`: reading it anywhere in the body is its purpose
    return "stale"


def facts(fn):
    """-> {variable: {"init": [depths], "update": [depths], "carried": {class: count}, "stale_sites": [(read node, loop node)]}}"""
    out = {}

    def rec(name):
        return out.setdefault(name, {"init": set(), "update": set(), "carried": {}, "stale_sites": [], "assign_nodes": []})

    params = {a.arg for a in fn.args.posonlyargs + fn.args.args + fn.args.kwonlyargs}
    if fn.args.vararg:
        params.add(fn.args.vararg.arg)
    if fn.args.kwarg:
        params.add(fn.args.kwarg.arg)
    for p in params:
        rec(p)["init"].add(0)

    def visit(stmts, depth):
        for st in stmts:
            if isinstance(st, (ast.FunctionDef, ast.AsyncFunctionDef, ast.ClassDef)):
                continue
            if isinstance(st, (ast.Assign, ast.AnnAssign)):
                ts = st.targets if isinstance(st, ast.Assign) else [st.target]
                rhs = {n.id for n in _loads(st.value)} if st.value is not None else set()
                for t in ts:
                    for nm in _target_names(t):
                        r = rec(nm)
                        (r["update"] if nm in rhs else r["init"]).add(depth)
                        r["assign_nodes"].append((st, depth))
                    for e in ([t] if not isinstance(t, (ast.Tuple, ast.List)) else t.elts):
                        if isinstance(e, (ast.Subscript, ast.Attribute)):
                            b = _base_name(e)
                            if b:
                                rec(b)["update"].add(depth)
            elif isinstance(st, ast.AugAssign):
                b = _base_name(st.target)
                if b:
                    rec(b)["update"].add(depth)
            for c in ast.walk(st) if not isinstance(st, (ast.For, ast.While, ast.If, ast.With, ast.Try, ast.AsyncFor, ast.AsyncWith)) else []:
                if isinstance(c, ast.Call) and isinstance(c.func, ast.Attribute) and c.func.attr in _MUTATORS and isinstance(c.func.value, ast.Name):
                    rec(c.func.value.id)["update"].add(depth)
            if isinstance(st, (ast.For, ast.AsyncFor)):
                for nm in _target_names(st.target):
                    rec(nm)["init"].add(depth + 1)
                _calls_in_expr(st.iter, depth)
                visit(st.body, depth + 1)
                visit(st.orelse, depth)
            elif isinstance(st, ast.While):
                _calls_in_expr(st.test, depth + 1)
                visit(st.body, depth + 1)
                visit(st.orelse, depth)
            elif isinstance(st, ast.If):
                _calls_in_expr(st.test, depth)
                visit(st.body, depth)
                visit(st.orelse, depth)
            elif isinstance(st, (ast.With, ast.AsyncWith)):
                for it in st.items:
                    if it.optional_vars is not None:
                        for nm in _target_names(it.optional_vars):
                            rec(nm)["init"].add(depth)
                visit(st.body, depth)
            elif isinstance(st, ast.Try):
                visit(st.body, depth)
                for h in st.handlers:
                    visit(h.body, depth)
                visit(st.orelse, depth)
                visit(st.finalbody, depth)

    def _calls_in_expr(e, depth):
        for c in ast.walk(e):
            if isinstance(c, ast.Call) and isinstance(c.func, ast.Attribute) and c.func.attr in _MUTATORS and isinstance(c.func.value, ast.Name):
                rec(c.func.value.id)["update"].add(depth)

    visit(fn.body, 0)

    # the form of every self-update inside a loop: additive (`n += k`, `n = n + k`, `n = n - k`) or not (`d = d * d`, `r = r / pix`, `x = f(x)`)
    def depth_of(node, parents):
        d, p = 0, parents.get(node)
        while p is not None and p is not fn:
            if isinstance(p, (ast.For, ast.While, ast.AsyncFor)):
                d += 1
            p = parents.get(p)
        return d

    parents = {}
    for n in _own(fn) + [fn]:
        for c in ast.iter_child_nodes(n):
            parents[c] = n
    for n in _own(fn):
        nm = form = None
        if isinstance(n, ast.AugAssign) and isinstance(n.target, ast.Name):
            nm, form = n.target.id, ("additive" if isinstance(n.op, (ast.Add, ast.Sub)) else "other")
        elif isinstance(n, ast.Assign) and len(n.targets) == 1 and isinstance(n.targets[0], ast.Name) and any(x.id == n.targets[0].id for x in _loads(n.value)):
            nm = n.targets[0].id
            v = n.value
            form = "additive" if (isinstance(v, ast.BinOp) and isinstance(v.op, (ast.Add, ast.Sub)) and isinstance(v.left, ast.Name) and v.left.id == nm
                                  and not any(x.id == nm for x in _loads(v.right))) else "other"
        if nm and depth_of(n, parents) > 0:
            rec(nm).setdefault("self_updates", []).append((n, form, depth_of(n, parents)))

    for loop in [n for n in _own(fn) if isinstance(n, (ast.For, ast.While, ast.AsyncFor))]:
        sc = _Scan(loop)
        d0 = set(_target_names(loop.target)) if isinstance(loop, (ast.For, ast.AsyncFor)) else set()
        if isinstance(loop, ast.While):
            sc.expr(loop.test, d0, loop, [])
        sc.block(loop.body, d0, [])
        seen = set()
        for node, st, ifs in sc.reads:
            cls = _classify(node.id, node, st, ifs, sc)
            r = rec(node.id)
            k = (node.id, id(loop), cls)
            if k not in seen:
                seen.add(k)
                r["carried"][cls] = r["carried"].get(cls, 0) + 1
            if cls == "stale":
                r["stale_sites"].append((node, loop))
    return out


def summary(fn):
    """the comparable part of `facts`: {variable: (sorted init depths, sorted update depths, sorted carried classes)}"""
    f = facts(fn)
    return {v: (sorted(r["init"]), sorted(r["update"]), sorted(r["carried"])) for v, r in f.items() if r["init"] or r["update"] or r["carried"]}


def hoisted_dependencies(fn, name, stmt):
    """names read by the assignment `stmt` (of `name`) that are rebound or updated in place inside a loop that follows it in the same block and reads `name`"""
    parents = {}
    for n in ast.walk(fn):
        for c in ast.iter_child_nodes(n):
            parents[c] = n
    p = parents.get(stmt)
    blk = None
    for fld in ("body", "orelse", "finalbody"):
        b = getattr(p, fld, None)
        if isinstance(b, list) and any(x is stmt for x in b):
            blk = b
    if blk is None:
        return []
    k = next(i for i, x in enumerate(blk) if x is stmt)
    rhs = {n.id for n in _loads(stmt.value)} if getattr(stmt, "value", None) is not None else set()
    rhs_attr = set()
    for n in ast.walk(stmt.value) if getattr(stmt, "value", None) is not None else []:
        if isinstance(n, ast.Attribute) and isinstance(n.value, ast.Name) and n.value.id == "self":
            rhs_attr.add(n.attr)
    hits = []
    for later in blk[k + 1:]:
        if isinstance(later, (ast.Assign, ast.AugAssign)) and name in _stores_in([later]):
            break
        for loop in [n for n in ast.walk(later) if isinstance(n, (ast.For, ast.While))]:
            if not any(n.id == name for st in loop.body for n in _loads(st)):
                continue
            changed = _stores_in(loop.body) | _mutated_in(loop.body) | (set(_target_names(loop.target)) if isinstance(loop, ast.For) else set())
            dep = sorted(rhs & changed)
            self_attrs = set()
            for n in ast.walk(loop):
                if isinstance(n, (ast.Assign, ast.AugAssign)):
                    for t in (n.targets if isinstance(n, ast.Assign) else [n.target]):
                        for e in ast.walk(t):
                            if isinstance(e, ast.Attribute) and isinstance(e.value, ast.Name) and e.value.id == "self" and isinstance(e.ctx, ast.Store):
                                self_attrs.add(e.attr)
            dep += ["self." + a for a in sorted(rhs_attr & self_attrs)]
            if dep:
                hits.append((loop, dep))
    return hits
