"""Abstract values of the interpreter (F2/F3/E2/E3/E6 share them)."""
from __future__ import annotations

import itertools

from .terms import T, const, sym, call, mk, is_const, cval

_ids = itertools.count(1)


class ColumnOrderUnknown(Exception):
    """a column is addressed by position in a table whose column order is whatever the input file has"""

    def __init__(self, msg, node=None):
        super().__init__(msg)
        self.node = node


class NotConst(Exception):
    pass


class Unsupported(Exception):
    """The analysed code uses an idiom the abstract interpreter does not model (-> ANALYSIS-ERROR, never a verdict)."""

    def __init__(self, msg, node=None):
        super().__init__(msg)
        self.node = node


class Space:
    """Abstract row space (E6).  A space is either a root (a table / array as given) or derived from a parent by a
    filter mask / reordering."""

    def __init__(self, name, parent=None, how=None, key=None, labels_are_positions=False):
        self.id = next(_ids)
        self.name = name
        self.parent = parent
        self.how = how  # 'filter' | 'sort' | 'concat' | 'root' | ...
        self.key = key  # e.g. key of the mask term
        self.labels_are_positions = labels_are_positions

    def __deepcopy__(self, memo):
        return self

    def nrows(self):
        """term for the number of rows.  The rows of a symbolic input table (a root) are what every column term ranges over, so
        a root is marked: a test for 'no rows at all' on it is decided as 'rows exist' when terms are evaluated (every per-row
        statement is vacuous on an empty table)"""
        from .terms import call, const
        s_ = self
        while s_.parent is not None and s_.how in ("sort", "reverse", "same", "repeat"):  # as many rows (or a positive multiple)
            s_ = s_.parent
        return call("nrows", const(self.id), const("input")) if s_.how == "root" and s_.parent is None else call("nrows", const(self.id))

    def same(self, other):
        if other is None:
            return False
        if self is other:
            return True
        return (self.how == other.how == "filter" and self.key is not None and self.key == other.key
                and self.parent is not None and self.parent.same(other.parent))

    def chain(self):
        s, out = self, []
        while s is not None:
            out.append(s.name)
            s = s.parent
        return " <- ".join(out)

    def __repr__(self):
        return f"<{self.name}#{self.id}>"


class AV:
    space = None


class Val(AV):
    """scalar or element-wise (column / 1-D array) value"""

    def __init__(self, term, space=None, pos_of=None, series=False):
        self.term = term if isinstance(term, T) else const(term)
        self.space = space
        self.pos_of = pos_of  # Space the values are positions into (E6) or None
        self.series = series

    def __repr__(self):
        return f"Val({self.term})"


class Arr(AV):
    """array whose last axis has known components: (N, k) with rows = particles (ndim 2) or a k-vector (ndim 1)"""

    def __init__(self, cols, ndim=2, space=None, single_row=False):
        self.cols = list(cols)
        self.ndim = ndim
        self.space = space
        self.single_row = single_row
        self.notes = []

    def __repr__(self):
        return f"Arr{self.ndim}({', '.join(map(str, self.cols))})"


class Frame(AV):
    def __init__(self, cols=None, order=None, prefix="", open_=False, space=None, row=False, name="df"):
        self.cols = dict(cols or {})
        self.order = list(order) if order is not None else None  # None = unknown column order
        self.prefix = prefix
        self.open = open_
        self.space = space
        self.row = row  # a single row (inside DataFrame.apply(axis=1) / iterrows)
        self.name = name
        self.notes = []  # history: ('fillna', v), ('reset_index', drop), ('sort_values', by, asc), ...
        self.filters = []
        self.written = set()
        self.labels_positional = False
        self.lab_root = object()  # family of row labels (E17): kept by copies / selections / sorts, renewed by reset_index

    def col(self, name):
        if name in self.cols:
            return self.cols[name]
        if self.open:
            t = sym(f"{self.prefix}{name}")
            self.cols[name] = t
            return t
        raise KeyError(name)

    def clone(self, **kw):
        f = Frame(self.cols, self.order, self.prefix, self.open, self.space, self.row, self.name)
        for k_, v_ in self.__dict__.items():
            if k_ not in f.__dict__ or k_ in ("is_empty", "alloc", "int_columns"):
                f.__dict__[k_] = v_
        f.notes = list(self.notes)
        f.filters = list(self.filters)
        f.written = set(self.written)
        f.labels_positional = self.labels_positional
        f.lab_root = self.lab_root
        for k, v in kw.items():
            setattr(f, k, v)
        return f

    def names(self):
        if self.order is not None:
            return list(self.order)
        return list(self.cols)

    def __repr__(self):
        return f"Frame[{self.name}]({', '.join(f'{k}={v}' for k, v in self.cols.items())})"


class Rot(AV):
    def __init__(self, term, space=None):
        self.term = term
        self.space = space

    def __repr__(self):
        return f"Rot({self.term})"


class Seq(AV):
    def __init__(self, items, kind="list"):
        self.items = list(items)
        self.kind = kind

    def __repr__(self):
        return f"Seq{self.kind}({self.items})"


class DictV(AV):
    def __init__(self, items=None):
        self.items = dict(items or {})

    def __repr__(self):
        return f"DictV({self.items})"


class SliceV(AV):
    def __init__(self, lower, upper, step):
        self.lower, self.upper, self.step = lower, upper, step

    def is_full(self):
        def none(x):
            if x is None:
                return True
            try:
                return is_pyconst(x) and pyval(x) is None  # slice(None) spells the bounds as the constant None
            except Exception:  # noqa
                return False
        return none(self.lower) and none(self.upper) and none(self.step)


class Obj(AV):
    def __init__(self, cls, attrs=None):
        self.cls = cls  # qualified class name e.g. 'cryomotl.Motl'
        self.attrs = dict(attrs or {})

    def __repr__(self):
        return f"Obj<{self.cls}>"


class Func(AV):
    def __init__(self, qual, module, node, closure=None, bound=None):
        self.qual = qual
        self.module = module
        self.node = node
        self.closure = closure
        self.bound = bound

    def __deepcopy__(self, memo):
        return self


class ClassRef(AV):
    def __init__(self, qual):
        self.qual = qual

    def __deepcopy__(self, memo):
        return self


class Ref(AV):
    """external module / function / class by canonical dotted name"""

    def __init__(self, name):
        self.name = name

    def __deepcopy__(self, memo):
        return self

    def __repr__(self):
        return f"Ref({self.name})"


class Method(AV):
    def __init__(self, recv, name):
        self.recv = recv
        self.name = name


class Indexer(AV):
    def __init__(self, recv, kind):
        self.recv = recv
        self.kind = kind  # 'loc' | 'iloc' | 'at' | 'iat'


class Unk(AV):
    """opaque value: the result of something the analysis does not model (kept as an uninterpreted term)"""

    def __init__(self, term, space=None, why=""):
        self.term = term
        self.space = space
        self.why = why

    def __repr__(self):
        return f"Unk({self.term})"


def pyval(av):
    """python constant behind an abstract value, or NotConst"""
    if isinstance(av, Val) and is_const(av.term):
        return av.term.args[0]
    if isinstance(av, Seq):
        if av.kind == "match":
            raise NotConst("match object")
        vals = [pyval(x) for x in av.items]
        return tuple(vals) if av.kind == "tuple" else vals
    if isinstance(av, DictV):
        return {k: pyval(v) for k, v in av.items.items()}
    if av is None:
        return None
    raise NotConst(repr(av))


def is_pyconst(av):
    try:
        pyval(av)
        return True
    except NotConst:
        return False


def K(v):
    return Val(const(v))


def to_term(av):
    if isinstance(av, T):
        return av
    if isinstance(av, (Val, Unk, Rot)):
        return av.term
    if isinstance(av, Arr):
        return T("vec", *av.cols)
    if isinstance(av, Seq):
        return T("vec", *[to_term(x) for x in av.items]) if av.items else const(())
    if isinstance(av, Frame):
        return call("frame:" + av.name, *[av.cols[k] for k in av.cols])
    if isinstance(av, Obj):
        df = av.attrs.get("df")
        return call("obj:" + av.cls, *( [to_term(df)] if df is not None else []))
    if isinstance(av, DictV):
        return call("dict", *[to_term(v) for v in av.items.values()])
    if isinstance(av, (Ref,)):
        return const("ref:" + av.name)
    if isinstance(av, (Func,)):
        return const("func:" + av.qual)
    if isinstance(av, ClassRef):
        return const("class:" + av.qual)
    if isinstance(av, SliceV):
        return call("slice", *[to_term(x) if x is not None else const(None) for x in (av.lower, av.upper, av.step)])
    if isinstance(av, Method):
        return call("method:" + av.name, to_term(av.recv))
    if isinstance(av, Indexer):
        return call("indexer:" + av.kind, to_term(av.recv))
    if av is None:
        return const(None)
    if hasattr(av, "src") and hasattr(av, "gain"):
        return call(type(av).__name__.lower(), av.src, av.gain if av.gain is not None else const(1.0))
    return const(repr(av))
