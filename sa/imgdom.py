"""Index-function arrays and Fourier layouts.

An n-dimensional array whose value is known as a function of its indices is an element-wise `Val` carrying
`axes` (one `Axis` per dimension: index symbol, length term, circular offset).  np.mgrid / np.arange / nested
`for i in range(n): A[i, ...] = f(i)` loops create them; fftshift / ifftshift add circular offsets; a spectrum
`fft(src)` multiplied by an index function becomes a `Spectrum` whose *gain in the unshifted FFT layout* is a closed
form over the base index symbols.  ifft of a spectrum whose accumulated offsets vanish (for every size, even and odd:
decided by random interpretation over integer sizes) yields a `Filtered` value that the obligations compare with
the specified gain."""
from __future__ import annotations

import itertools

from . import terms as tm
from .terms import T, const, sym, call, mk
from .values import AV, Val, Arr, Seq, SliceV, Unk, K, pyval, is_pyconst, to_term, NotConst, Unsupported

_ax = itertools.count(1)


class Axis:
    def __init__(self, symbol, n, off=None, name=None):
        self.sym = symbol  # index symbol (term)
        self.n = n  # length term
        self.off = off if off is not None else const(0)  # value_at(k) = fn((k + off) mod n)
        self.name = name

    def __deepcopy__(self, memo):
        return self

    def with_off(self, off):
        return Axis(self.sym, self.n, off, self.name)

    def __repr__(self):
        return f"Axis({tm.show(self.sym)}<{tm.show(self.n)}, off={tm.show(self.off)})"


def fresh_axis(n, name="i"):
    return Axis(sym(f"{name}#{next(_ax)}"), n, name=name)


def bcast_axes(a, b):
    """numpy broadcasting of two axis lists (None = broadcast / absent axis)"""
    if a is None:
        return b
    if b is None:
        return a
    la, lb = list(a), list(b)
    n = max(len(la), len(lb))
    la = [None] * (n - len(la)) + la
    lb = [None] * (n - len(lb)) + lb
    out = []
    for x, y in zip(la, lb):
        if x is None:
            out.append(y)
        elif y is None:
            out.append(x)
        else:
            if x.sym != y.sym:
                return None  # indexed by different index variables: the index structure is no longer tracked
            if x.off != y.off and not tm.equivalent(x.off, y.off, n=6, samplers=INT_SIZES, seed_tag="off"):
                return None
            out.append(x)
    return out


def int_size_sampler(rng):
    return float(rng.integers(4, 49))


class _Sizes(dict):
    """sampler table: any symbol not listed is an integer array size"""

    def __contains__(self, k):
        return True

    def __getitem__(self, k):
        return dict.get(self, k, int_size_sampler)


INT_SIZES = _Sizes()


def axes_of(v):
    return getattr(v, "axes", None)


def with_axes(v, axes):
    if axes is not None:
        v.axes = axes
    return v


# ------------------------------------------------------------------------------------------------ spectra
class Spectrum(AV):
    def __init__(self, src, gain=None, shifts=None, transformed="all", offs=None, axes=None):
        self.src = src  # term of the transformed signal
        self.gain = gain  # term over base index symbols, or None (= 1)
        self.shifts = list(shifts or [])  # pending shifts while the rank is unknown: (kind, axes|None)
        self.transformed = transformed  # 'all' | 'last2'
        self.offs = offs  # per-axis offsets once the rank is known
        self.axes = axes  # base axes (rank known)

    def __repr__(self):
        return f"Spectrum(src={tm.show(self.src)[:40]}, gain={tm.show(self.gain)[:80] if self.gain is not None else 1})"


class Filtered(AV):
    def __init__(self, src, gain, axes, transformed, real=False):
        self.src, self.gain, self.axes, self.transformed, self.real = src, gain, axes, transformed, real
        self.term = call("filtered", src, gain if gain is not None else const(1.0))
        self.space = None

    def __repr__(self):
        return f"Filtered(src={tm.show(self.src)[:40]}, gain={tm.show(self.gain)[:100] if self.gain is not None else 1})"


def _unwrapped(t):
    while t.op == "call" and t.args[0] in (".astype", ".copy", "numpy.real", "numpy.asarray", "numpy.array", "cast") and len(t.args) >= 2:
        t = t.args[1]
    return t


def join_filtered(cterm, a, b):
    """merge of two branch values when at least one is a filtered map: a branch that hands on the unfiltered input is the filter
    with gain 1 everywhere (a shortcut that skips the transform)"""
    fa, fb = isinstance(a, Filtered), isinstance(b, Filtered)
    if fa and fb and a.src == b.src and a.axes is not None and b.axes is not None and len(a.axes) == len(b.axes):
        ga = a.gain if a.gain is not None else const(1.0)
        gb = b.gain if b.gain is not None else const(1.0)
        gb = tm.subst(gb, {y.sym: x.sym for x, y in zip(a.axes, b.axes)})
        return Filtered(a.src, mk("ite", cterm, ga, gb), a.axes, a.transformed and b.transformed, a.real and b.real)
    f, o, f_first = (a, b, True) if fa else (b, a, False)
    if not isinstance(f, Filtered) or isinstance(o, Filtered) or not hasattr(o, "term"):
        return None
    if _unwrapped(o.term) != _unwrapped(f.src):
        return None
    g = f.gain if f.gain is not None else const(1.0)
    gain = mk("ite", cterm, g, const(1.0)) if f_first else mk("ite", cterm, const(1.0), g)
    r = Filtered(f.src, gain, f.axes, f.transformed, f.real)
    r.shortcut = True
    return r


def shift_amount(kind, n):
    h = mk("floordiv", n, const(2))
    return mk("neg", h) if kind == "fftshift" else h


def _axes_arg(kwargs, args):
    ax = kwargs.get("axes", args[1] if len(args) > 1 else None)
    if ax is None or (is_pyconst(ax) and pyval(ax) is None):
        return None
    try:
        v = pyval(ax)
    except NotConst:
        raise Unsupported("fftshift with non-literal axes")
    return [v] if isinstance(v, int) else list(v)


def do_shift(it, kind, x, args, kwargs, node):
    axes_sel = _axes_arg(kwargs, args)
    if isinstance(x, Spectrum):
        s = Spectrum(x.src, x.gain, x.shifts, x.transformed, x.offs, x.axes)
        s.rank = getattr(x, "rank", None)
        if s.axes is None:
            s.shifts.append((kind, axes_sel))
        else:
            s.offs = list(s.offs)
            r = len(s.axes)
            for a in range(r):
                if axes_sel is None or a in axes_sel or (a - r) in axes_sel:
                    s.offs[a] = mk("add", s.offs[a], shift_amount(kind, s.axes[a].n))
        return s
    ax = axes_of(x)
    if isinstance(x, Val) and ax is not None:
        r = len(ax)
        new = []
        for a, A in enumerate(ax):
            if A is not None and (axes_sel is None or a in axes_sel or (a - r) in axes_sel):
                new.append(A.with_off(mk("add", A.off, shift_amount(kind, A.n))))
            else:
                new.append(A)
        v = Val(x.term, space=x.space)
        v.axes = new
        return v
    if isinstance(x, (Unk, Val)):
        u = Unk(call("numpy.fft." + kind, to_term(x)))
        u.shifted = (kind, x, axes_sel)
        return u
    raise Unsupported(f"{kind} of {type(x).__name__}", node)


def do_fft(it, fn, x, args, kwargs, node):
    transformed = "last2" if fn.endswith("2") else "all"
    inverse = fn.startswith("i")
    if not inverse:
        if isinstance(x, Filtered) and x.axes is not None and x.gain is not None and x.transformed == transformed:
            # a filtered map transformed again: FFT(IFFT(F * g)) = F * g -- the gains of chained filters multiply
            s = Spectrum(x.src, x.gain, [], transformed, [const(0) for _ in x.axes], list(x.axes))
            s.chained = True
            return s
        if isinstance(x, (Spectrum, Filtered)):
            raise Unsupported("fft of a spectrum", node)
        if axes_of(x) is not None:
            raise Unsupported("fft of an index function", node)
        s = Spectrum(to_term(x), None, [], transformed)
        s.rank = getattr(x, "rank", None)
        size_ = kwargs.get("s") if kwargs else None
        if size_ is not None and not (is_pyconst(size_) and pyval(size_) is None):
            s.padded = to_term(size_)  # fftn(x, s=...): the transform lives on another (padded / cropped) grid than x
            it.record("fourier", "padded-transform", [x, size_], {}, node)
        return s
    if not isinstance(x, Spectrum):
        raise Unsupported(f"{fn} of a value that is not a tracked spectrum", node)
    if x.transformed != transformed:
        raise Unsupported(f"{fn} applied to a spectrum produced by a transform over different axes", node)
    if x.axes is None:
        # never multiplied: identity up to pending shifts
        if x.shifts:
            kinds = [k for k, _ in x.shifts]
            it.record("fourier", "unbalanced-shift", [], {}, node, {"shifts": kinds})
        return Filtered(x.src, None, None, transformed)
    for a, (A, off) in enumerate(zip(x.axes, x.offs)):
        v = tm.equivalent(mk("mod", off, A.n), const(0), samplers=INT_SIZES, n=24, seed_tag="off0")
        if not v:
            it.record("fourier", "layout-offset", [], {}, node, {"axis": a, "offset": off, "witness": v.witness})
    f_ = Filtered(x.src, x.gain, x.axes, transformed)
    if getattr(x, "padded", None) is not None:
        f_.padded = x.padded
    return f_


def multiply(it, a, b, node):
    """Spectrum * index function (either order)"""
    s, q = (a, b) if isinstance(a, Spectrum) else (b, a)
    if isinstance(q, Spectrum):
        raise Unsupported("product of two spectra", node)
    qa = axes_of(q)
    if qa is None:
        # scalar gain
        g = to_term(q)
        ns = Spectrum(s.src, g if s.gain is None else mk("mul", s.gain, g), s.shifts, s.transformed, s.offs, s.axes)
        ns.rank = getattr(s, "rank", None)
        return ns
    rank = getattr(s, "rank", None)
    if s.axes is None and rank is not None and rank > len(qa):
        qa = [None] * (rank - len(qa)) + list(qa)
    if s.axes is None and rank is not None and rank < len(qa):
        raise Unsupported("gain array of higher rank than the transformed signal", node)
    qa = [A if A is not None else fresh_axis(call("shape", s.src, const(k)), "b") for k, A in enumerate(qa)]
    r = len(qa)
    if s.axes is None:
        base = [Axis(A.sym, A.n, const(0), A.name) for A in qa]
        offs = [const(0)] * r
        for kind, sel in s.shifts:
            for ax in range(r):
                if sel is None or ax in sel or (ax - r) in sel:
                    offs[ax] = mk("add", offs[ax], shift_amount(kind, base[ax].n))
    else:
        base, offs = s.axes, list(s.offs)
        if len(base) != r:
            raise Unsupported("gain array of a different rank than the spectrum", node)
    mapping = {}
    for A, B, oS in zip(qa, base, offs):
        # current index k = (j - oS) mod n ; q_cur[k] = qfn((k + oQ) mod n)
        j = B.sym
        mapping[A.sym] = mk("mod", mk("add", mk("sub", j, oS), A.off), B.n)
    g = tm.subst(to_term(q), mapping)
    gain = g if s.gain is None else mk("mul", s.gain, g)
    ns = Spectrum(s.src, gain, [], s.transformed, offs, base)
    ns.rank = r
    return ns


# ------------------------------------------------------------------------------------------------ grids / indexing
def mgrid(it, name, idx, node):
    parts = idx.items if isinstance(idx, Seq) else [idx]
    axes = []
    comps = []
    for sl in parts:
        if not isinstance(sl, SliceV):
            raise Unsupported(f"{name} with a non-slice argument", node)
        lo = to_term(sl.lower) if sl.lower is not None else const(0)
        hi = to_term(sl.upper) if sl.upper is not None else None
        st = to_term(sl.step) if sl.step is not None else const(1)
        if hi is None:
            raise Unsupported(f"{name} with an open slice", node)
        n = mk("ceil", mk("div", mk("sub", hi, lo), st))
        A = Axis(it.grid_symbol(len(axes), n), n, name="g")
        axes.append(A)
        comps.append(mk("add", lo, mk("mul", A.sym, st)))
    out = []
    for c in comps:
        v = Val(c)
        v.axes = list(axes)
        v.grid = name
        out.append(v)
    if len(out) == 1:
        return out[0]
    return Seq(out, "tuple")


def newaxis_index(v, idx):
    """v[np.newaxis, :], v[:, None], ... on an index function / 1-D index vector -> axes re-arranged"""
    ax = axes_of(v)
    if ax is None:
        if getattr(v, "arange", None) is not None and getattr(v, "length", None) is not None:
            syms = [s for s in tm.symbols(v.term) if s.startswith("idx")]
            if len(syms) == 1:
                ax = [Axis(sym(syms[0]), v.length)]
        if ax is None:
            return None
    items = idx.items if isinstance(idx, Seq) else [idx]
    out, src = [], list(ax)
    for x in items:
        if is_pyconst(x) and pyval(x) is None:
            out.append(None)
        elif isinstance(x, SliceV) and x.is_full():
            if not src:
                return None
            out.append(src.pop(0))
        else:
            return None
    out.extend(src)
    r = Val(v.term, space=v.space)
    r.axes = out
    return r


def index_store(it, arr, idx, value, node):
    """A[i, j, ...] = value with scalar indices: returns the new index function, or None if not applicable"""
    items = idx.items if isinstance(idx, Seq) and idx.kind == "tuple" else [idx]
    ax = axes_of(arr)
    loops = [getattr(x, "range_args", None) for x in items]
    if all(l is not None for l in loops) and all(getattr(x, "is_scalar_index", False) for x in items):
        # filling an allocated array element by element inside nested full-range loops
        shape = getattr(arr, "alloc_shape", None)
        dims = shape.items if isinstance(shape, Seq) else ([shape] if shape is not None else None)
        new_axes = []
        for k, x in enumerate(items):
            ra = x.range_args
            if len(ra) != 1:
                raise Unsupported("element-wise fill with a partial range", node)
            n = to_term(ra[0])
            if dims is not None and k < len(dims):
                dv = tm.equivalent(n, to_term(dims[k]), samplers=INT_SIZES, n=8, seed_tag="dim")
                if not dv:
                    it.record("fourier", "fill-range-mismatch", [], {}, node, {"axis": k, "range": n, "dim": to_term(dims[k])})
            new_axes.append(Axis(x.term, n, name="loop"))
        v = Val(to_term(value), space=None)
        v.axes = new_axes
        v.filled_in_loop = True
        return v
    if ax is not None and len(items) == len(ax) and all(not isinstance(x, SliceV) for x in items):
        cond = None
        for A, x in zip(ax, items):
            if A is None:
                return None
            c = mk("eq", mk("mod", mk("add", A.sym, A.off), A.n) if tm.cval(A.off) != 0 else A.sym, to_term(x))
            cond = c if cond is None else mk("and", cond, c)
        v = Val(mk("ite", cond, to_term(value), arr.term), space=arr.space)
        v.axes = list(ax)
        return v
    return None


def reshape_axes(it, v, shape, node):
    """x.reshape(n, 1, 1): a 1-D array laid along the first axis of a broadcastable array"""
    items = shape.items if isinstance(shape, Seq) else [shape]
    nontrivial = [k for k, x in enumerate(items) if not (is_pyconst(x) and pyval(x) == 1)]
    if len(items) >= 2 and len(nontrivial) == 1 and getattr(v, "axes", None) is None:
        k = nontrivial[0]
        A = fresh_axis(to_term(items[k]), "r")
        r = Val(call("getitem", to_term(v), A.sym))
        r.axes = [A if j == k else None for j in range(len(items))]
        return r
    return None


def sample_env(axes, rng, extra=None, size_lo=4, size_hi=48):
    """random assignment: integer sizes for the free symbols of the lengths, integer indices inside the lengths"""
    env = {"__salt__": float(rng.uniform(0, 1))}
    if extra:
        for k, f in extra.items():
            env[k] = f(rng)
    for A in axes:
        for name in tm.symbols(A.n):
            env.setdefault(name, float(rng.integers(size_lo, size_hi + 1)))
    for A in axes:
        n = int(round(float(tm.evaluate(A.n, env))))
        for name in tm.symbols(A.sym):
            env[name] = float(rng.integers(0, max(n, 1)))
    return env


def axes_from_shape(it, shape):
    """axes of an array allocated with the given shape (a vector of dimension terms)"""
    from .lib import as_arr
    dims = None
    if isinstance(shape, Seq):
        dims = [to_term(x) for x in shape.items]
    elif isinstance(shape, Arr):
        dims = list(shape.cols)
    else:
        a = as_arr(shape) if shape is not None else None
        if a is not None:
            dims = list(a.cols)
    if dims is None:
        return None
    return [Axis(it.grid_symbol(k, n), n, name="g") for k, n in enumerate(dims)]


def slab_store(it, arr, idx, value, node):
    """A[:, :, lo:hi] = value (slices / scalar indices per axis): conditional store on the index function"""
    items = idx.items if isinstance(idx, Seq) and idx.kind == "tuple" else [idx]
    if not any(isinstance(x, SliceV) and not x.is_full() for x in items):
        return None
    ax = axes_of(arr)
    if ax is None:
        ax = axes_from_shape(it, getattr(arr, "alloc_shape", None))
    if ax is None or len(ax) != len(items):
        return None
    vax = axes_of(value)
    cond = None
    out_axes = []
    for k, (A, x) in enumerate(zip(ax, items)):
        va = vax[k] if vax is not None and len(vax) == len(ax) else None
        if isinstance(x, SliceV) and x.is_full():
            out_axes.append(va if va is not None else A)
            continue
        if A is None:
            return None
        out_axes.append(A)
        if isinstance(x, SliceV):
            if x.step is not None:
                return None
            if x.lower is not None:
                c = mk("ge", A.sym, to_term(x.lower))
                cond = c if cond is None else mk("and", cond, c)
            if x.upper is not None:
                c = mk("lt", A.sym, to_term(x.upper))
                cond = c if cond is None else mk("and", cond, c)
            if va is not None:
                return None  # value varies along the sliced axis: offset bookkeeping not modelled
        else:
            c = mk("eq", A.sym, to_term(x))
            cond = c if cond is None else mk("and", cond, c)
    # the value is expressed over its own axes on the full-slice dimensions: rename them to the array's axes if they differ
    vt = to_term(value)
    v = Val(mk("ite", cond, vt, arr.term) if cond is not None else vt)
    v.axes = out_axes
    return v


def tile(it, v, reps, node):
    ax = axes_of(v)
    if ax is None or not isinstance(reps, Seq):
        return None
    items = reps.items
    if len(items) != len(ax):
        return None
    for A, r in zip(ax, items):
        one = is_pyconst(r) and pyval(r) == 1
        if not one and A is not None:
            return None
    out = Val(v.term, space=v.space)
    out.axes = list(ax)
    return out


def _scalar_of_arrays(t, depth=0):
    """a number: constants and complete reductions (mean / sum / ... over all axes) of arrays, combined by arithmetic"""
    if depth > 8:
        return False
    if t.op == "const":
        return isinstance(t.args[0], (int, float))
    if t.op in ("add", "sub", "mul", "div", "neg", "abs", "sqrt", "float"):
        return all(_scalar_of_arrays(x, depth + 1) for x in t.args if hasattr(x, "op"))
    return t.op == "call" and str(t.args[0]).startswith("reduce:") and len(t.args) == 3 and t.args[2].op == "const" and t.args[2].args[0] is None


def combine_filtered(it, opn, a, b, node):
    """linear combinations of filtered versions of the same signal: x - lowpass(x) is x filtered with gain 1 - g"""
    fa = a if isinstance(a, Filtered) else None
    fb = b if isinstance(b, Filtered) else None
    other = b if fa is not None else a
    f = fa or fb
    if fa is None or fb is None:
        if isinstance(other, (Val, Unk)) and to_term(other) == f.src and getattr(other, "axes", None) is None:
            ident = Filtered(f.src, None, None, f.transformed, real=True)
            fa, fb = (f, ident) if fa is not None else (ident, f)
        elif opn in ("mul", "div") and is_pyconst(other) and fa is not None:
            g = mk(opn, f.gain if f.gain is not None else const(1.0), to_term(other))
            return Filtered(f.src, g, f.axes, f.transformed, f.real)
        elif opn == "mul" and is_pyconst(other):
            g = mk("mul", to_term(other), f.gain if f.gain is not None else const(1.0))
            return Filtered(f.src, g, f.axes, f.transformed, f.real)
        elif opn in ("mul", "div") and isinstance(other, (Val, Unk)) and getattr(other, "axes", None) is None and fa is not None \
                and (getattr(other, "scalar_of_image", False) or _scalar_of_arrays(to_term(other))):
            # scaled by a number computed from an image (a mean, a norm): the factor becomes part of the gain, which then depends on the data
            g = mk(opn, f.gain if f.gain is not None else const(1.0), to_term(other))
            return Filtered(f.src, g, f.axes, f.transformed, f.real)
        elif opn in ("add", "sub") and isinstance(other, (Val, Unk)):
            # something that is not a filtered version of the map is added to the filtered map (a constant, a mean): kept as an
            # offset next to the gain -- the result is no longer `filter applied to the map`
            r_ = Filtered(f.src, f.gain, f.axes, f.transformed, f.real)
            r_.offset = list(getattr(f, "offset", [])) + [(opn if fa is not None else "rsub" if opn == "sub" else "add", to_term(other))]
            return r_
        else:
            return None
    if opn not in ("add", "sub") or fa.src != fb.src or fa.transformed != fb.transformed:
        return None
    ga = fa.gain if fa.gain is not None else const(1.0)
    gb = fb.gain if fb.gain is not None else const(1.0)
    axes = fa.axes or fb.axes
    if fa.axes is not None and fb.axes is not None:
        if len(fa.axes) != len(fb.axes) or any(x.sym != y.sym for x, y in zip(fa.axes, fb.axes)):
            return None
    return Filtered(fa.src, mk(opn, ga, gb), axes, fa.transformed, fa.real and fb.real)


# ------------------------------------------------------------------------------------------------ stacks of component grids
class CompStack(AV):
    """a (k, ...) array whose k components are index functions over one common grid: np.array(np.meshgrid(...)), its
    reshape(k, -1) (flat = C-order flattening of the grid), reversals along either dimension, tiles of per-component
    constants, and element-wise arithmetic between such stacks"""

    def __init__(self, comps, axes, flat=False):
        self.comps = list(comps)
        self.axes = list(axes) if axes is not None else None  # None: per-component constants not yet broadcast over a grid
        self.flat = flat
        self.space = None
        self.term = call("compstack", *self.comps)

    def like(self, comps, axes=None, flat=None):
        return CompStack(comps, self.axes if axes is None else axes, self.flat if flat is None else flat)

    def __repr__(self):
        return f"CompStack({[tm.show(c)[:30] for c in self.comps]}, flat={self.flat})"


def linspace(it, args, kwargs, node):
    """np.linspace(a, b, n): element j = a + j*(b-a)/(n-1)"""
    if len(args) < 3 and "num" not in kwargs:
        return None
    a, b = to_term(args[0]), to_term(args[1])
    n = to_term(args[2] if len(args) > 2 else kwargs["num"])
    idx = it.index_symbol(n)
    step = mk("div", mk("sub", b, a), mk("sub", n, const(1)))
    r = Val(mk("add", a, mk("mul", idx, step)))
    r.axes = [Axis(idx, n, name="linspace")]
    r.length = n
    return r


def fftfreq(it, args, kwargs, node):
    """np.fft.fftfreq(n, d): element j = (j if j <= (n-1)//2 else j - n) / (n*d)"""
    if not args:
        return None
    n = to_term(args[0])
    d = to_term(args[1]) if len(args) > 1 else to_term(kwargs["d"]) if "d" in kwargs else const(1.0)
    idx = it.index_symbol(n)
    signed = mk("ite", mk("le", idx, mk("floordiv", mk("sub", n, const(1)), const(2))), idx, mk("sub", idx, n))
    r = Val(mk("div", signed, mk("mul", n, d)))
    r.axes = [Axis(idx, n, name="fftfreq")]
    r.length = n
    return r


def meshgrid(it, args, kwargs, node):
    ind = kwargs.get("indexing")
    if ind is None or not is_pyconst(ind) or pyval(ind) != "ij":
        return None
    vs = list(args)
    if not vs or not all(isinstance(v, Val) and getattr(v, "axes", None) is not None and len(v.axes) == 1 for v in vs):
        return None
    grid = [v.axes[0] for v in vs]
    out = []
    for v in vs:
        g = Val(v.term)
        g.axes = list(grid)
        out.append(g)
    return Seq(out, "list")


def stack_from_seq(seq):
    items = seq.items if isinstance(seq, Seq) else None
    if not items or not all(isinstance(v, Val) and getattr(v, "axes", None) is not None for v in items):
        return None
    ax0 = items[0].axes
    if not all(len(v.axes) == len(ax0) and all(x.sym == y.sym for x, y in zip(v.axes, ax0)) for v in items):
        return None
    return CompStack([v.term for v in items], ax0, flat=False)


def stack_reshape(cs, shape):
    """reshape(k, -1) flattens the grid; reshape(<grid shape>) of a reduced stack is handled by the caller"""
    items = shape.items if isinstance(shape, Seq) else None
    if items and len(items) == 2 and is_pyconst(items[0]) and pyval(items[0]) == len(cs.comps) and is_pyconst(items[1]) and pyval(items[1]) == -1:
        return cs.like(cs.comps, flat=True)
    return None


def stack_getitem(cs, idx):
    """[::-1] on the component axis; [:, ::-1] on the flattened grid (position p -> N-1-p, i.e. every grid index i -> n-1-i)"""
    def is_rev(s):
        return isinstance(s, SliceV) and s.lower is None and s.upper is None and s.step is not None and is_pyconst(s.step) and pyval(s.step) == -1

    def is_full(s):
        return isinstance(s, SliceV) and s.is_full()

    if is_rev(idx):
        return cs.like(list(reversed(cs.comps)))
    if isinstance(idx, Seq) and len(idx.items) == 2 and is_full(idx.items[0]) and is_rev(idx.items[1]) and cs.flat and cs.axes is not None:
        m = {A.sym: mk("sub", mk("sub", A.n, const(1)), A.sym) for A in cs.axes}
        return cs.like([tm.subst(c, m) for c in cs.comps])
    return None


def stack_tile(v, reps, like):
    """np.tile(<k-vector>.reshape(k, 1), (1, N)): per-component constants broadcast over the flattened grid of `like`"""
    a = v if isinstance(v, Arr) else None
    if a is None or not (isinstance(reps, Seq) and len(reps.items) == 2 and is_pyconst(reps.items[0]) and pyval(reps.items[0]) == 1):
        return None
    n = reps.items[1]
    src = getattr(n, "stack_of", None)
    if src is None:
        return None
    return CompStack(list(a.cols), src.axes, flat=True)


def stack_arith(opn, a, b):
    ca, cb = isinstance(a, CompStack), isinstance(b, CompStack)
    if ca and cb:
        if len(a.comps) != len(b.comps):
            raise Unsupported("arithmetic between component stacks of different height")
        return a.like([mk(opn, x, y) for x, y in zip(a.comps, b.comps)])
    s, o, left = (a, b, True) if ca else (b, a, False)
    if isinstance(o, Arr) or not hasattr(o, "term") and not is_pyconst(o):
        raise Unsupported("arithmetic between a component stack and a non-scalar")
    t = to_term(o)
    return s.like([mk(opn, c, t) if left else mk(opn, t, c) for c in s.comps])


def stack_sum(cs, axis):
    if axis != 0:
        return None
    t = cs.comps[0]
    for c in cs.comps[1:]:
        t = mk("add", t, c)
    r = Val(t)
    r.axes = list(cs.axes) if cs.axes is not None else None
    r.flat_grid = cs.flat
    return r
