"""F4 -- value terms and random interpretation.

Every value the abstract interpreter computes is an immutable *term* (an expression DAG over source symbols:
parameters, table columns, results of calls the analysis does not model).  Two terms are decided equal by
*random interpretation* (Gulwani & Necula, "Global value numbering using random interpretation", POPL 2004):
both are evaluated over the same random assignment of the free symbols (un-modelled calls are interpreted as fixed
pseudo-random functions of their evaluated arguments) and compared; for the polynomial / trigonometric fragment a
mismatch at a random point refutes equality and agreement at many independent points establishes it with
probability 1 - epsilon (Schwartz-Zippel).  No repository code is executed: the only things evaluated are the
extracted terms.  The random points are seeded by VERIF_SEED.
"""
from __future__ import annotations

import hashlib
import math
import os

import numpy as np

try:  # the analyser's own tool for evaluating Euler-angle terms (trusted base, not the code under analysis)
    from scipy.spatial.transform import Rotation as _R
except Exception:  # pragma: no cover
    _R = None

SEED = int(os.environ.get("VERIF_SEED", "0") or 0)
N_MULT = 1  # the thorough tier multiplies the number of random points


class T:
    __slots__ = ("op", "args", "_h")

    def __init__(self, op, *args):
        self.op = op
        self.args = tuple(args)
        self._h = None

    def __deepcopy__(self, memo):
        return self

    def __copy__(self):
        return self

    def key(self):
        if self._h is None:
            parts = [self.op]
            for a in self.args:
                parts.append(a.key() if isinstance(a, T) else "c:" + repr(a))
            self._h = hashlib.md5("|".join(parts).encode()).hexdigest()
        return self._h

    def __eq__(self, other):
        return isinstance(other, T) and self.key() == other.key()

    def __hash__(self):
        return hash(self.key())

    def __repr__(self):
        return show(self)


def const(v):
    return T("const", v)


def sym(name):
    return T("sym", name)


def call(name, *args):
    return T("call", name, *args)


def is_const(t):
    return isinstance(t, T) and t.op == "const"


def cval(t, default=None):
    return t.args[0] if is_const(t) else default


INFIX = {"add": "+", "sub": "-", "mul": "*", "div": "/", "floordiv": "//", "mod": "%", "pow": "**",
         "lt": "<", "le": "<=", "gt": ">", "ge": ">=", "eq": "==", "ne": "!=", "and": "&", "or": "|",
         "matmul": "@"}


def show(t, depth=0):
    if not isinstance(t, T):
        return repr(t)
    if depth > 12:
        return "..."
    if t.op == "const":
        return repr(t.args[0])
    if t.op == "sym":
        return str(t.args[0])
    if t.op in INFIX and len(t.args) == 2:
        return f"({show(t.args[0], depth + 1)} {INFIX[t.op]} {show(t.args[1], depth + 1)})"
    if t.op == "neg":
        return f"-{show(t.args[0], depth + 1)}"
    if t.op == "call":
        return f"{t.args[0]}({', '.join(show(a, depth + 1) for a in t.args[1:])})"
    return f"{t.op}({', '.join(show(a, depth + 1) for a in t.args)})"


def walk(t, seen=None):
    if seen is None:
        seen = set()
    if not isinstance(t, T) or t.key() in seen:
        return
    seen.add(t.key())
    yield t
    for a in t.args:
        if isinstance(a, T):
            yield from walk(a, seen)


def symbols(*terms):
    out = {}
    for t in terms:
        for n in walk(t):
            if n.op == "sym":
                out[n.args[0]] = True
    return list(out)


def contains(t, pred):
    return any(pred(n) for n in walk(t))


def find(t, pred):
    return [n for n in walk(t) if pred(n)]


def has_sym(t, name):
    return contains(t, lambda n: n.op == "sym" and n.args[0] == name)


def has_call(t, name):
    return contains(t, lambda n: n.op == "call" and n.args[0] == name)


def subst(t, mapping, memo=None):
    """Replace sub-terms (by key) according to mapping {T: T}."""
    if memo is None:
        memo = {}
    if not isinstance(t, T):
        return t
    k = t.key()
    if k in memo:
        return memo[k]
    if t in mapping:
        r = mapping[t]
    elif not t.args:
        r = t
    else:
        r = T(t.op, *[subst(a, mapping, memo) for a in t.args])
    memo[k] = r
    return r


# ------------------------------------------------------------------------------------------------ smart constructors
def _num(v):
    return isinstance(v, (int, float)) and not isinstance(v, bool)


def mk(op, *args):
    """Build a term with light constant folding (keeps normal forms small; equality is decided by
    random interpretation, not by this folding)."""
    if all(is_const(a) for a in args if isinstance(a, T)) and all(isinstance(a, T) for a in args) and op in _FOLD:
        vals = [a.args[0] for a in args]
        if all(_num(v) or isinstance(v, bool) for v in vals):
            try:
                r = _FOLD[op](*vals)
                if isinstance(r, (np.floating, np.integer)):
                    r = r.item()
                if isinstance(r, (np.bool_,)):
                    r = bool(r)
                return const(r)
            except Exception:  # noqa
                pass
    if op == "not" and len(args) == 1 and isinstance(args[0], T) and args[0].op == "not":
        return args[0].args[0]  # double negation (if not c: B else: A)
    if op == "gt":  # canonical orientation of comparisons: a > b is stored as b < a
        return mk("lt", args[1], args[0])
    if op == "ge":
        return mk("le", args[1], args[0])
    if op == "add":
        if cval(args[0]) == 0 and _num(cval(args[0])):
            return args[1]
        if cval(args[1]) == 0 and _num(cval(args[1])):
            return args[0]
    if op == "sub" and _num(cval(args[1])) and cval(args[1]) == 0:
        return args[0]
    if op == "mul":
        if _num(cval(args[0])) and cval(args[0]) == 1:
            return args[1]
        if _num(cval(args[1])) and cval(args[1]) == 1:
            return args[0]
    if op == "div" and _num(cval(args[1])) and cval(args[1]) == 1:
        return args[0]
    if op == "ite":
        c, a, b = args
        if is_const(c):
            return a if c.args[0] else b
        if a == b:
            return a
    if op == "not" and is_const(args[0]):
        return const(not args[0].args[0])
    return T(op, *args)


_FOLD = {
    "add": lambda a, b: a + b, "sub": lambda a, b: a - b, "mul": lambda a, b: a * b,
    "div": lambda a, b: a / b, "floordiv": lambda a, b: a // b, "mod": lambda a, b: a % b,
    "pow": lambda a, b: a ** b, "neg": lambda a: -a, "abs": abs,
    "lt": lambda a, b: a < b, "le": lambda a, b: a <= b, "gt": lambda a, b: a > b, "ge": lambda a, b: a >= b,
    "eq": lambda a, b: a == b, "ne": lambda a, b: a != b,
    "sqrt": math.sqrt, "cos": math.cos, "sin": math.sin, "tan": math.tan, "exp": math.exp,
    "radians": math.radians, "degrees": math.degrees, "floor": math.floor, "ceil": math.ceil,
    "int": lambda a: int(a), "float": lambda a: float(a), "round": lambda a: float(np.round(a)),
}


# ------------------------------------------------------------------------------------------------ evaluation
def _hashf(name, vals):
    """A fixed pseudo-random function: the interpretation of an un-modelled call."""
    h = hashlib.md5()
    h.update(str(name).encode())
    for v in vals:
        try:
            arr = np.asarray(v, dtype=float).ravel() if not isinstance(v, str) else None
        except (TypeError, ValueError):
            v, arr = str(v), None
        if arr is None:
            h.update(b"s" + v.encode())
        else:
            h.update(np.round(arr, 9).tobytes())
    x = int.from_bytes(h.digest()[:8], "big") / 2 ** 64
    return 0.25 + 3.5 * x  # positive, away from 0/1 so that divisions and comparisons are generic


def _rhu(x):
    # decimal ROUND_HALF_UP: to the nearest integer, ties away from zero
    x = np.asarray(x, dtype=float)
    return np.sign(x) * np.floor(np.abs(x) + 0.5)


def nearest_integer(va, vb):
    """relation for `equivalent`: va is integer-valued and within 0.5 of vb (any tie rule)"""
    return bool(np.all(np.abs(va - np.round(va)) <= 1e-9) and np.all(np.abs(vb - va) <= 0.5 + 1e-9))


def _euler(seq, a, deg):
    return _R.from_euler(seq, np.asarray(a, dtype=float), degrees=bool(deg)).as_matrix()


class EvalError(Exception):
    pass


def _pystr(x):
    if isinstance(x, (np.floating,)):
        return str(float(x))
    if isinstance(x, (np.integer,)):
        return str(int(x))
    return str(x)


_TYPES = {"builtins.float": (float, np.floating), "builtins.int": (int, np.integer), "builtins.str": (str,),
          "numpy.floating": (float, np.floating), "numpy.integer": (int, np.integer), "builtins.bool": (bool,)}


def _isinstance(v, names):
    ts = ()
    for n in str(names).split("|"):
        ts += _TYPES.get(n, ())
    if isinstance(v, bool) and "builtins.bool" not in str(names):
        return False
    return isinstance(v, ts)


# calls with a fixed, library-independent meaning are interpreted; everything else stays uninterpreted
INTERPRETED = {
    "isinstance": _isinstance,
    "numpy.hypot": lambda x, y: np.hypot(_f(x), _f(y)),
    "numpy.broadcast_to": lambda x, *shape: x,  # element-wise the same values
    "numpy.square": lambda x: np.square(_f(x)),
    "numpy.deg2rad": lambda x: np.deg2rad(_f(x)),
    "numpy.rad2deg": lambda x: np.rad2deg(_f(x)),
    "str.format": lambda fmt, *xs: fmt.format(*xs),
    "str.rstrip": lambda s_, *xs: s_.rstrip(*xs),
    "str.lstrip": lambda s_, *xs: s_.lstrip(*xs),
    "str.strip": lambda s_, *xs: s_.strip(*xs),
    "str.ljust": lambda s_, *xs: s_.ljust(*[int(x) if not isinstance(x, str) else x for x in xs]),
    "str.rjust": lambda s_, *xs: s_.rjust(*[int(x) if not isinstance(x, str) else x for x in xs]),
    "str.replace": lambda s_, *xs: s_.replace(*xs),
    "str.lower": lambda s_: s_.lower(),
    "str.join": lambda sep, xs: sep.join(_pystr(x) if not isinstance(x, str) else x for x in xs),
    "str.upper": lambda s_: s_.upper(),
    "str.zfill": lambda s_, n: s_.zfill(int(n)),
    "builtins.repr": repr,
    "str.rsplit": lambda s_, *xs: s_.rsplit(*[int(x) if isinstance(x, float) else x for x in xs]),
    "str.split": lambda s_, *xs: s_.split(*[int(x) if isinstance(x, float) else x for x in xs]),
    "elem": lambda a, i: a[int(i)] if np.ndim(a) > 0 or isinstance(a, (str, list, tuple)) else a,
    "first": lambda a, i=0: a,
    "each": lambda a, *rest: a,  # the generic element of a per-row vector is the row's own value (per-row view)
    "getitem": lambda a, i: a[int(i)] if not isinstance(i, str) else a[i],
    "re.search": lambda p, s_: __import__("re").search(p, s_),
    "re.findall": lambda p, s_: __import__("re").findall(p, s_),
    "re.match": lambda p, s_: __import__("re").match(p, s_),
    ".group": lambda m, *a: m.group(*[int(x) for x in a]),
    "listcomp": lambda elem, it: elem,
    "reduce:min": lambda x, ax=None: np.min(np.asarray(x, dtype=float)),
    "reduce:max": lambda x, ax=None: np.max(np.asarray(x, dtype=float)),
    ".astype": lambda x, t=None: (np.trunc(np.asarray(x, dtype=float)) if "int" in str(t) else x),
    "builtins.all": lambda x: bool(x),
    "builtins.any": lambda x: bool(x),
    "all": lambda x: bool(x),
    "any": lambda x: bool(x),
}


def _str_accessor(method, kwnames):
    """pandas Series.str.<method>(...) applied to one cell's text (the per-row view of the vectorised string methods)"""
    def f(s_, *xs):
        pos = list(xs[:len(xs) - len(kwnames)])
        kw = dict(zip(kwnames, xs[len(xs) - len(kwnames):]))
        if not isinstance(s_, str):
            raise TypeError(f".str.{method} of a non-text value {s_!r} (pandas gives NaN / raises)")
        ints = lambda v: int(v) if isinstance(v, (float, np.floating)) and float(v).is_integer() else v
        if method in ("ljust", "rjust", "center"):
            return getattr(s_, method)(ints(kw.get("width", pos[0] if pos else 0)), *( [kw.get("fillchar", pos[1] if len(pos) > 1 else " ")]))
        if method == "pad":
            side = kw.get("side", pos[1] if len(pos) > 1 else "left")
            w_ = ints(kw.get("width", pos[0]))
            ch = kw.get("fillchar", pos[2] if len(pos) > 2 else " ")
            return {"left": s_.rjust, "right": s_.ljust, "both": s_.center}[side](w_, ch)
        if method == "zfill":
            return s_.zfill(ints(pos[0]))
        if method in ("strip", "lstrip", "rstrip"):
            a_ = kw.get("to_strip", pos[0] if pos else None)
            return getattr(s_, method)(a_) if a_ is not None else getattr(s_, method)()
        if method in ("upper", "lower", "title", "capitalize"):
            return getattr(s_, method)()
        if method == "replace":
            pat, repl = kw.get("pat", pos[0] if pos else None), kw.get("repl", pos[1] if len(pos) > 1 else None)
            n_ = ints(kw.get("n", pos[2] if len(pos) > 2 else -1))
            if kw.get("regex", False):
                import re as _re
                return _re.sub(pat, repl, s_, count=0 if n_ == -1 else n_)
            return s_.replace(pat, repl, n_)
        if method == "slice":
            return s_[slice(*[None if v is None else ints(v) for v in (kw.get("start", pos[0] if pos else None), kw.get("stop", pos[1] if len(pos) > 1 else None),
                                                                          kw.get("step", pos[2] if len(pos) > 2 else None))])]
        if method == "len":
            return len(s_)
        if method in ("startswith", "endswith"):
            return getattr(s_, method)(pos[0])
        if method == "contains":
            return (pos[0] in s_) if not kw.get("regex", True) else bool(__import__("re").search(pos[0], s_))
        raise TypeError(f".str.{method} is not interpreted")
    return f


_ALGEBRAIC_LIBRARY = {"numpy.einsum", "numpy.dot", "numpy.inner", "numpy.tensordot", "numpy.matmul", "numpy.outer", "numpy.vdot", "numpy.cross", "numpy.take",
                      "numpy.take_along_axis", "numpy.choose", "numpy.select", "numpy.linalg.multi_dot", "numpy.kron", "numpy.trace", "numpy.prod", "math.hypot",
                      "math.dist", "numpy.linalg.det", "numpy.linalg.inv", "scipy.linalg.norm", "math.fsum", "numpy.average", "numpy.nansum", "numpy.nanmean"}
_ELEMENTWISE_EXTRA = {"isclose": lambda a, b, rtol=1e-05, atol=1e-08, equal_nan=False: np.isclose(_f(a), _f(b), rtol=rtol, atol=atol, equal_nan=bool(equal_nan)),
                      "nan_to_num": lambda x, *a, **k: np.nan_to_num(_f(x)), "clip": lambda x, lo, hi: np.clip(_f(x), lo, hi),
                      "round": lambda x, d=0: np.round(_f(x), int(d)), "around": lambda x, d=0: np.round(_f(x), int(d)), "fix": lambda x: np.fix(_f(x)),
                      "real": lambda x: np.real(x), "sinc": lambda x: np.sinc(_f(x)), "angle": lambda x: np.angle(x)}


def _numpy_elementwise(name):
    """numpy functions that act on each element on its own (ufuncs and a few more): evaluated by numpy itself at the sample points"""
    if not (isinstance(name, str) and name.startswith("numpy.") and name.count(".") == 1):
        return None
    short = name.split(".", 1)[1]
    if short in _ELEMENTWISE_EXTRA:
        return _ELEMENTWISE_EXTRA[short]
    f = getattr(np, short, None)
    if isinstance(f, np.ufunc):
        return lambda *xs, _f_=f: _f_(*[_f(x) for x in xs])
    return None


def _interpreted(name):
    f = INTERPRETED.get(name)
    if f is None:
        f = _numpy_elementwise(name)
    if f is None and isinstance(name, str) and name.startswith(".str."):
        meth, _, kws = name[5:].partition("[")
        f = _str_accessor(meth, [k for k in kws.rstrip("]").split(",") if k])
    return f


def evaluate(t, env, cache=None):
    if cache is None:
        cache = {}
    if not isinstance(t, T):
        return t
    k = t.key()
    if k in cache:
        return cache[k]
    op = t.op
    if op == "const":
        v = t.args[0]
        r = v
    elif op == "sym":
        name = t.args[0]
        if name not in env:
            env[name] = _hashf("sym:" + name, [env.get("__salt__", 0.0)]) * 7.3 - 11.0
        r = env[name]
    elif op == "ite":
        c = _cond_value(t.args[0], env, cache)
        if isinstance(c, np.ndarray) and c.ndim > 0:
            r = np.where(c, evaluate(t.args[1], env, cache), evaluate(t.args[2], env, cache))
        else:
            r = evaluate(t.args[1], env, cache) if bool(c) else evaluate(t.args[2], env, cache)
    elif op == "concat":  # a row of a concatenated table comes from one of the parts (same choice for all columns)
        r = evaluate(t.args[0] if env.get("__salt__", 0.0) < 0.5 else t.args[1], env, cache)
    else:
        a = [evaluate(x, env, cache) for x in t.args]
        try:
            r = _apply(op, a, t)
        except (TypeError, ValueError) as e:
            # an operand of a kind the operation is not defined for (None, text where a number is needed): the expression has no value
            raise EvalError(f"{op}: {e}")
    cache[k] = r
    return r


_UNINT = {}


def has_uninterpreted(t):
    """does the term contain a call the analyser gives no meaning to?"""
    if not isinstance(t, T):
        return False
    k = t.key()
    if k not in _UNINT:
        r = (t.op == "call" and _interpreted(t.args[0]) is None) or any(has_uninterpreted(a) for a in t.args)
        _UNINT[k] = r
    return _UNINT[k]


def _cond_value(c, env, cache):
    """truth value of a branch condition; a condition that depends on an un-modelled value is interpreted as a
    pseudo-random boolean (fixed per random point), so that both outcomes are exercised across the points"""
    if isinstance(c, T):
        if c.op in ("and", "or") and len(c.args) == 2:
            a, b = _cond_value(c.args[0], env, cache), _cond_value(c.args[1], env, cache)
            return np.logical_and(a, b) if c.op == "and" else np.logical_or(a, b)
        if c.op == "not":
            return np.logical_not(_cond_value(c.args[0], env, cache))
        if c.op == "call" and _interpreted(c.args[0]) is not None:
            return evaluate(c, env, cache)
        if c.op in ("eq", "ne", "lt", "le", "gt", "ge") and len(c.args) == 2:
            # 'the symbolic input table has no rows': column terms range over its rows, so rows exist
            for i_, j_ in ((0, 1), (1, 0)):
                n_, z_ = c.args[i_], c.args[j_]
                if n_.op == "call" and n_.args[0] == "nrows" and len(n_.args) == 3 and cval(n_.args[2]) == "input" and cval(z_) == 0 \
                        and not isinstance(cval(z_), bool):
                    big, zero = (1.0, 0.0)
                    a_, b_ = (big, zero) if i_ == 0 else (zero, big)
                    return {"eq": a_ == b_, "ne": a_ != b_, "lt": a_ < b_, "le": a_ <= b_, "gt": a_ > b_, "ge": a_ >= b_}[c.op]
        if has_uninterpreted(c):
            h = hashlib.md5((c.key() + repr(env.get("__salt__", 0.0))).encode()).digest()
            return bool(h[0] & 1)
    v = evaluate(c, env, cache)
    return v


def _f(x):
    if isinstance(x, (bool, np.bool_)):
        return float(x)
    return x


def _apply(op, a, t):
    with np.errstate(all="ignore"):
        if op == "add":
            return _f(a[0]) + _f(a[1])
        if op == "sub":
            return _f(a[0]) - _f(a[1])
        if op == "mul":
            return _f(a[0]) * _f(a[1])
        if op == "div":
            return np.divide(_f(a[0]), _f(a[1])) if np.all(np.asarray(a[1]) != 0) else np.nan * np.asarray(_f(a[0]))
        if op == "floordiv":
            return np.floor_divide(_f(a[0]), _f(a[1]))
        if op == "mod":
            return np.mod(_f(a[0]), _f(a[1]))
        if op == "pow":
            return np.power(np.asarray(_f(a[0]), dtype=float), _f(a[1]))
        if op == "neg":
            return -_f(a[0])
        if op == "abs":
            return np.abs(a[0])
        if op in ("lt", "le", "gt", "ge", "eq", "ne"):
            f = {"lt": np.less, "le": np.less_equal, "gt": np.greater, "ge": np.greater_equal,
                 "eq": np.equal, "ne": np.not_equal}[op]
            if isinstance(a[0], str) or isinstance(a[1], str) or a[0] is None or a[1] is None:
                return (a[0] == a[1]) if op == "eq" else (a[0] != a[1]) if op == "ne" else False
            return f(_f(a[0]), _f(a[1]))
        if op == "and":
            if isinstance(a[0], str) or isinstance(a[1], str):
                return a[0] and a[1]
            return np.logical_and(a[0], a[1])
        if op == "or":
            if isinstance(a[0], str) or isinstance(a[1], str):
                return a[0] or a[1]
            return np.logical_or(a[0], a[1])
        if op == "not":
            return np.logical_not(a[0])
        if op in ("sqrt", "exp", "log", "sin", "cos", "tan", "arccos", "arcsin", "arctan", "radians", "degrees",
                  "floor", "ceil", "square"):
            f = {"radians": np.radians, "degrees": np.degrees}.get(op) or getattr(np, op)
            return f(np.asarray(_f(a[0]), dtype=float))
        if op == "arctan2":
            return np.arctan2(_f(a[0]), _f(a[1]))
        if op == "narrow":
            x_ = np.asarray(_f(a[0]), dtype=float)
            if str(a[1]).startswith("float"):
                return x_.astype(getattr(np, str(a[1]))).astype(float)
            return np.trunc(x_)
        if op in ("trunc", "sign"):
            return getattr(np, op)(np.asarray(_f(a[0]), dtype=float))
        if op == "copysign":
            return np.copysign(_f(a[0]), _f(a[1]))
        if op == "round":
            if isinstance(a[0], str):
                return a[0]  # DataFrame.round leaves text columns as they are
            if isinstance(a[0], (int, np.integer)) and not isinstance(a[0], bool):
                return a[0]  # ... and integer columns integer
            return np.round(np.asarray(_f(a[0]), dtype=float), int(a[1]) if len(a) > 1 and a[1] is not None else 0)
        if op == "rhu":
            return _rhu(a[0])
        if op == "int":
            r = np.trunc(np.asarray(_f(a[0]), dtype=float))
            return int(r) if r.ndim == 0 and np.isfinite(r) else r
        if op == "float":
            return np.asarray(_f(a[0]), dtype=float)
        if op == "clip":
            return np.clip(_f(a[0]), a[1], a[2])
        if op == "minimum":
            return np.minimum(_f(a[0]), _f(a[1]))
        if op == "maximum":
            return np.maximum(_f(a[0]), _f(a[1]))
        if op == "vec":
            if any(isinstance(x, str) for x in a):
                return list(a)  # a table of labels (np.array(["B", "A"])[k])
            return np.array([np.asarray(_f(x), dtype=float) for x in a], dtype=float)
        if op == "item":
            return np.asarray(a[0])[int(a[1])]
        if op == "norm":
            return np.linalg.norm(a[0])
        if op == "dot":
            return np.dot(a[0], a[1])
        if op == "cross":
            return np.cross(a[0], a[1])
        # ---- rotations (3x3 matrices)
        if op == "euler":
            return _euler(a[0], np.asarray(a[1], dtype=float), a[2])
        if op == "as_euler":
            import warnings
            with warnings.catch_warnings():
                warnings.simplefilter("ignore")  # gimbal lock at a sampled pole: scipy's convention (third angle 0) is the value
                return _R.from_matrix(a[1]).as_euler(a[0], degrees=bool(a[2]))
        if op == "matmul":
            return np.asarray(a[0]) @ np.asarray(a[1])
        if op == "transpose":
            return np.asarray(a[0]).T
        if op == "identity3":
            return np.eye(3)
        if op == "rotapply":  # scipy Rotation.apply(v) == M @ v
            return np.asarray(a[0]) @ np.asarray(a[1], dtype=float)
        if op == "quat":  # quaternion of a rotation matrix; a[1]: canonical (w >= 0), a[2]: scalar_first
            q = _R.from_matrix(a[0]).as_quat(canonical=bool(a[1]) if len(a) > 1 else False)
            if not (len(a) > 1 and a[1]):
                # the sign of a non-canonical quaternion is arbitrary: pick it pseudo-randomly
                if int(abs(float(np.sum(q))) * 1e6) % 2:
                    q = -q
            if len(a) > 2 and a[2]:
                q = np.roll(q, 1)
            return q
        if op == "trace":
            return np.trace(np.asarray(a[0]))
        if op == "eye":
            return np.eye(int(a[0]))
        if op == "matinv":
            return np.linalg.inv(np.asarray(a[0], dtype=float))
        if op == "setblock":
            m_ = np.array(a[0], dtype=float, copy=True)
            m_[a[1]] = np.asarray(a[2], dtype=float)
            return m_
        if op == "getblock":
            return np.asarray(a[0])[a[1]]
        if op == "sel":
            return a[0]
        if op == "call":
            f = _interpreted(a[0])
            if f is not None:
                try:
                    return f(*a[1:])
                except Exception as e:  # noqa
                    if a[0] in ("getitem", "elem", ".astype"):
                        return _hashf(a[0], [str(x) if not isinstance(x, (int, float, np.ndarray, np.floating)) else x for x in a[1:]])
                    raise EvalError(f"{a[0]}: {e}")
            return _hashf(a[0], a[1:])
        if op == "str":
            return "".join(_pystr(x) for x in a)
        if op == "fmt":
            v = a[0]
            if a[2] == 115:
                v = str(v)
            elif a[2] == 114:
                v = repr(v)
            try:
                return format(v, a[1])
            except Exception as e:  # noqa
                raise EvalError(f"format({v!r}, {a[1]!r}): {e}")
        if op == "kw":
            return a[1]
    raise EvalError(f"cannot evaluate op {op!r}")


# ------------------------------------------------------------------------------------------------ random interpretation
def sample_env(names, rng, samplers=None, scale=40.0):
    env = {"__salt__": float(rng.uniform(0, 1))}
    for n in names:
        if samplers and n in samplers:
            env[n] = samplers[n](rng)
        else:
            env[n] = float(rng.uniform(-scale, scale))
    return env


class Verdict:
    def __init__(self, equal, points, witness=None, note=""):
        self.equal = equal
        self.points = points
        self.witness = witness
        self.note = note

    def __bool__(self):
        return bool(self.equal)


GUARD_POINTS = True


def guard_points(terms, names, rng, samplers):
    """points on the boundaries the code itself tests: for every comparison of a free symbol with a numeric constant in the terms
    (`s == c`, `s < c`, ...), sample points with s = c -- a generic random point never takes a branch guarded by an equality.
    Only symbols drawn from the default domain (all reals) are moved: a symbol with its own sampler has a restricted domain that
    the constant may lie outside of."""
    special = {}
    seen = set()
    for t in terms:
        for nd in walk(t, seen):
            if nd.op in ("eq", "ne", "lt", "le", "gt", "ge") and len(nd.args) == 2:
                for x, y in ((nd.args[0], nd.args[1]), (nd.args[1], nd.args[0])):
                    if isinstance(x, T) and x.op == "sym" and x.args[0] in names and not (samplers and x.args[0] in samplers):
                        c = cval(y)
                        if isinstance(c, (int, float)) and not isinstance(c, bool) and abs(c) <= 40:
                            special.setdefault(x.args[0], set()).add(float(c))
    envs = []
    if not special:
        return envs
    keys = sorted(special)
    for rep in range(4):  # all guarded symbols on a boundary at once
        env = sample_env(names, rng, samplers)
        for k in keys:
            cs = sorted(special[k])
            env[k] = cs[int(rng.integers(0, len(cs)))]
        envs.append(env)
    for k in keys:  # one at a time
        for c in sorted(special[k])[:3]:
            for rep in range(2):
                env = sample_env(names, rng, samplers)
                env[k] = c
                envs.append(env)
    return envs[:24]


def equivalent(a, b, samplers=None, n=24, tol=1e-7, extra_envs=(), seed_tag="", need=None, relation=None):
    """Random interpretation: are the two terms equal as functions of their free symbols?  (`relation`, if given, replaces
    equality: a predicate on the two evaluated values that must hold at every point)"""
    lattice_only = bool(extra_envs) and n <= len(extra_envs)  # the caller's points (e.g. integer lattice) are the domain
    n = len(extra_envs) if lattice_only else n * N_MULT
    # a library function without a model is interpreted as an unknown function: that is sound between two occurrences of the same call,
    # and says nothing when only one side uses it (np.hypot(x, y) against sqrt(x*x + y*y)) -- then the comparison decides nothing
    if isinstance(a, T) and isinstance(b, T):
        # ... for the functions that can well be another spelling of a closed form (products and contractions, gathers, re-wrappings); a
        # function that restructures its input (cumsum, repeat, tile, split, sort) stays an unknown function: it differs from the closed form
        lib = lambda t_: {str(n_.args[0]) for n_ in walk(t_) if n_.op == "call" and isinstance(n_.args[0], str) and _interpreted(n_.args[0]) is None
                          and str(n_.args[0]) in _ALGEBRAIC_LIBRARY}
        la_, lb_ = lib(a), lib(b)
        if la_ ^ lb_:
            from .values import Unsupported
            raise Unsupported(f"the library function {sorted(la_ ^ lb_)[0]} has no model in the term evaluator and occurs on one side of the comparison only: not decided")
    names = symbols(a, b)
    rng = np.random.default_rng([SEED, int(hashlib.md5(("eq" + seed_tag).encode()).hexdigest()[:8], 16)])
    good = 0
    envs = [dict(e) for e in extra_envs]
    if GUARD_POINTS and not lattice_only:
        gp = guard_points([a, b], names, rng, samplers)
        envs += gp
        n += len(gp)
    tries = 0
    while good < n and tries < 6 * n + len(envs):
        if lattice_only and not envs:
            break
        env = envs.pop(0) if envs else sample_env(names, rng, samplers)
        tries += 1
        try:
            cache = {}
            va = evaluate(a, env, cache)
            vb = evaluate(b, env, cache)
        except EvalError as e:
            # a term that has no value at this point (an operation the evaluator gives no meaning to, an operand of the wrong kind) decides
            # nothing: neither equal nor different
            from .values import Unsupported
            raise Unsupported(f"a term of the comparison cannot be evaluated ({e}): not decided")
        va = np.asarray(_f(va), dtype=float)
        vb = np.asarray(_f(vb), dtype=float)
        if va.shape != vb.shape:
            try:
                va, vb = np.broadcast_arrays(va, vb)
            except ValueError:
                return Verdict(False, good, {k: v for k, v in env.items() if k != "__salt__"},
                               f"shapes differ: {va.shape} vs {vb.shape}")
        if np.any(np.isnan(va)) or np.any(np.isnan(vb)) or np.any(np.isinf(va)) or np.any(np.isinf(vb)):
            continue  # outside the common domain
        if not (relation(va, vb) if relation is not None else np.allclose(va, vb, rtol=tol, atol=tol)):
            return Verdict(False, good, {"env": {k: _short(v) for k, v in env.items() if k != "__salt__"},
                                         "lhs": _short(va), "rhs": _short(vb)}, "values differ")
        good += 1
    if good < (need if need is not None else max(4, n // 3)):
        return Verdict(False, good, None, "too few points inside the common domain")
    return Verdict(True, good)


def _short(v):
    a = np.asarray(v, dtype=float)
    if a.ndim == 0:
        return round(float(a), 6)
    return np.round(a, 6).tolist()


def rot_equivalent(a, b, samplers=None, n=16, seed_tag=""):
    """Equality of two rotation-matrix terms."""
    return equivalent(a, b, samplers=samplers, n=n, tol=1e-7, seed_tag="rot" + seed_tag)
