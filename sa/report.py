"""Verdict plumbing: obligations, findings keyed by (property, obligation, function, normalised construct),
known-findings file, evidence/<id>.json, replay files, exit codes 0 / 1 / 2."""
from __future__ import annotations

import ast
import json
import os
import time
import traceback

from .srcmodel import AnchorMissing, norm_text
from .values import Unsupported

ROOT = os.path.dirname(os.path.dirname(os.path.abspath(__file__)))
EVID = os.environ.get("VERIF_EVIDENCE_DIR") or os.path.join(ROOT, "evidence")
KNOWN = os.path.join(ROOT, "known_findings.json")


class Finding:
    def __init__(self, obligation, function, construct, message, node=None, module=None, detail=None):
        self.obligation = obligation
        self.function = function
        self.construct = construct if isinstance(construct, str) else norm_text(construct)
        self.message = message
        self.line = getattr(node, "lineno", None) if node is not None else None
        self.file = module.path if module is not None else None
        self.detail = detail or {}

    def key(self, prop):
        return f"{prop}|{self.obligation}|{self.function}|{self.construct}"

    def to_json(self, prop):
        return {"property": prop, "obligation": self.obligation, "function": self.function,
                "construct": self.construct, "file": self.file, "line": self.line, "rule": self.message,
                "detail": self.detail}


class Obligation:
    """one rule instance family; `run(ctx)` returns a list of Finding and fills self.instances / self.samples"""

    def __init__(self, oid, title, fn, floor=1, tier="quick"):
        self.id = oid
        self.title = title
        self.fn = fn
        self.floor = floor
        self.tier = tier
        self.instances = 0
        self.samples = []
        self.status = None
        self.error = None
        self.findings = []
        self.wall = 0.0


class Ctx:
    """what an obligation sees"""

    def __init__(self, prog, prop, tier):
        self.prog = prog
        self.prop = prop
        self.tier = tier
        self.cur = None
        self.analysed_functions = set()

    def count(self, n=1, sample=None):
        self.cur.instances += n
        if sample is not None and len(self.cur.samples) < 12:
            self.cur.samples.append(sample)

    def touched(self, *quals):
        self.analysed_functions.update(quals)

    def finding(self, function, construct, message, node=None, module=None, **detail):
        f = Finding(self.cur.id, function, construct, message, node, module, detail)
        self.cur.findings.append(f)
        return f


def _thorough_obligations(prop, prog, ctx):
    """self-test of the property's rules, both ways (see sa/selftest.py)"""
    import importlib
    from . import selftest
    spec = importlib.import_module(f"spec.{prop}")

    def sens(c):
        selftest.sensitivity(c, spec, prop, prog.repo)

    def spec_(c):
        mods = sorted({q.split(".")[0] for q in c.analysed_functions}) or sorted({q.split(".")[0] for q in getattr(spec, "TWIN_MODULES", [])})
        files = [f"cryocat/{m}.py" for m in mods]
        selftest.specificity(c, spec, prop, prog.repo, files, skip=getattr(spec, "TWIN_SKIP", ()))

    n_seeds = len(selftest.seeds_for(prop))
    return [Obligation("S.sens", "self-test: every stored, confirmed property-breaking change is still reported", sens, floor=min(1, n_seeds), tier="thorough"),
            Obligation("S.spec", "self-test: behaviour-preserving twins of the analysed modules raise no alarm", spec_, floor=1, tier="thorough")]


def load_known():
    if not os.path.exists(KNOWN):
        return []
    with open(KNOWN) as fh:
        return json.load(fh).get("findings", [])


def run_property(prop, title, obligations, prog, tier, explanation, assumptions, seed):
    t0 = time.time()
    ctx = Ctx(prog, prop, tier)
    known = load_known()
    known_keys = {f"{k['property']}|{k['obligation']}|{k['function']}|{k['construct']}": k for k in known
                  if k.get("status") == "known"}
    lines = []
    violations = []
    known_hits = []
    errors = []
    if tier == "thorough":
        from . import terms as _tm
        _tm.N_MULT = 6
        obligations = list(obligations) + _thorough_obligations(prop, prog, ctx)
    ids_ = [ob.id for ob in obligations]
    if len(set(ids_)) != len(ids_):
        raise RuntimeError(f"duplicate obligation ids in spec {prop}: {sorted(i for i in set(ids_) if ids_.count(i) > 1)}")
    for ob in obligations:
        if ob.tier == "thorough" and tier != "thorough":
            continue
        ctx.cur = ob
        t1 = time.time()
        try:
            ob.fn(ctx)
            if ob.instances < ob.floor and not ob.findings:
                raise AnchorMissing(f"rule matched {ob.instances} construct(s), fewer than the {ob.floor} confirmed by "
                                    f"reading: the rule would pass vacuously")
            ob.status = "VIOLATED" if ob.findings else "HOLDS"
        except (AnchorMissing, Unsupported) as e:
            ob.status = "UNRECOGNISED"
            node = getattr(e, "node", None)
            where = f" at line {node.lineno}: {norm_text(node)[:120]}" if node is not None and hasattr(node, "lineno") else ""
            ob.error = f"{type(e).__name__}: {e}{where}"
        except Exception as e:  # noqa -- a crash of the analyser is never a verdict
            ob.status = "UNRECOGNISED"
            ob.error = f"analyser crash: {type(e).__name__}: {e}\n" + traceback.format_exc(limit=int(os.environ.get("VERIF_TRACE_DEPTH", "6")) * (-1 if os.environ.get("VERIF_TRACE") else 1))
        ob.wall = time.time() - t1
        if ob.status == "UNRECOGNISED":
            errors.append(ob)
            lines.append(f"ANALYSIS-ERROR property={prop} obligation={ob.id} {ob.error.splitlines()[0]}")
            if os.environ.get("VERIF_TRACE") and "\n" in ob.error:
                lines.extend("    " + ln for ln in ob.error.splitlines()[1:])
            continue
        real = []
        uniq, seen_keys = [], set()
        for f in ob.findings:
            k_ = f.key(prop) + "|" + f.message[:80]
            if k_ not in seen_keys:
                seen_keys.add(k_)
                uniq.append(f)
        ob.findings = uniq
        for f in ob.findings:
            if f.key(prop) in known_keys:
                first_ = f.key(prop) not in {x.key(prop) for x in known_hits}
                known_hits.append(f)
                if first_:
                    lines.append(f"KNOWN-FINDING: property={prop} obligation={f.obligation} {f.function}: "
                                 f"{known_keys[f.key(prop)].get('what_fails', f.message)}")
            else:
                real.append(f)
        if real:
            violations.extend(real)
        lines.append(f"{'OK ' if not real else 'BAD'} {prop} {ob.id} [{ob.instances} instance(s), {ob.wall:.2f}s] {ob.title}")
    os.makedirs(os.path.join(EVID, "replay"), exist_ok=True)
    for old_ in os.listdir(os.path.join(EVID, "replay")):  # the replay files of a property are those of its last run
        if old_.startswith(prop + "-") and old_.endswith(".json"):
            try:
                os.remove(os.path.join(EVID, "replay", old_))
            except OSError:
                pass
    for i, f in enumerate(violations):
        path = os.path.join(EVID, "replay", f"{prop}-{i}.json")
        with open(path, "w") as fh:
            json.dump(f.to_json(prop), fh, indent=1, default=str)
        where = f"{f.file}:{f.line}" if f.file else f.function
        lines.append(f"  {where} in {f.function}: {f.message}")
        lines.append(f"    construct: {f.construct[:200]}")
        for k, v in list(f.detail.items())[:6]:
            lines.append(f"    {k}: {str(v)[:300]}")
        lines.append(f"VIOLATION property={prop} replay={path}")
    ran = [ob for ob in obligations if ob.status is not None]
    discharged = sum(1 for ob in ran if ob.status == "HOLDS" or (ob.status == "VIOLATED" and all(
        f.key(prop) in known_keys for f in ob.findings)))
    evaluations = sum(ob.instances for ob in ran)
    wall = time.time() - t0
    evidence = {
        "property_id": prop,
        "tier": tier,
        "seed": seed,
        "level": "other",
        "coverage": {
            "explanation": explanation,
            "obligations": len(ran),
            "discharged": discharged,
            "evaluations": evaluations,
            "distinct_nontrivial": sum(1 for ob in ran if ob.instances > 0 and ob.status != "UNRECOGNISED"),
            "rule": "one evaluation = one construct of /repo's current source matched and decided by a rule (call site, "
                    "store, comparison, table entry, closed-form term); an obligation is non-trivial iff it matched at "
                    "least its instance floor; distinct_nontrivial counts such obligations",
            "samples": [{"obligation": ob.id, "title": ob.title, "status": ob.status, "instances": ob.instances,
                         "floor": ob.floor, "wall_s": round(ob.wall, 3), "cases": ob.samples[:6],
                         **({"error": ob.error.splitlines()[0]} if ob.error else {})} for ob in ran],
            "functions_analysed": sorted(ctx.analysed_functions),
            "source_digest": prog.digest(),
            "known_findings_reported": [f.key(prop) for f in known_hits],
        },
        "assumptions": assumptions,
        "wall_s": round(wall, 3),
        "violations": len(violations),
    }
    os.makedirs(EVID, exist_ok=True)
    with open(os.path.join(EVID, f"{prop}.json"), "w") as fh:
        json.dump(evidence, fh, indent=1, default=str)
    print("\n".join(lines))
    print(f"{prop} [{tier}] {title}: {len(ran)} obligations, {discharged} discharged, {evaluations} rule instances, "
          f"{len(violations)} violation(s), {len(known_hits)} known finding(s), {len(errors)} analysis error(s), {wall:.1f}s")
    if violations:
        return 1
    if errors:
        return 2
    return 0
