"""F1 -- the resolved program: parsed modules of /repo's current working tree, qualified lookup,
import-alias resolution, class literal tables, class hierarchy and a resolved call graph.

Nothing from the repository is imported or executed; every run re-parses the files on disk (or the
in-memory overlay used by the self-test).
"""
from __future__ import annotations

import ast
import hashlib
import os
import warnings

REPO = os.environ.get("VERIF_REPO", "/repo")
PKG = "cryocat"


class AnchorMissing(Exception):
    """A function/class/attribute the rule is anchored on does not exist any more."""


class Module:
    def __init__(self, name, path, source):
        self.name = name  # "cryomotl"
        self.path = path
        self.source = source
        with warnings.catch_warnings():
            warnings.simplefilter("ignore")
            self.tree = ast.parse(source, filename=path)
        self.lines = source.splitlines()
        self.aliases = {}  # local name -> canonical dotted name
        self.defs = {}  # qualname -> FunctionDef / ClassDef
        self.parents = {}  # node -> parent node
        self._index()

    def _index(self):
        for node in ast.walk(self.tree):
            for ch in ast.iter_child_nodes(node):
                self.parents[ch] = node
        for node in self.tree.body:
            self._alias_stmt(node)
        # imports inside try/if at module level
        for node in self.tree.body:
            if isinstance(node, (ast.Try, ast.If)):
                for sub in ast.walk(node):
                    self._alias_stmt(sub)

        def rec(body, prefix):
            for n in body:
                if isinstance(n, (ast.FunctionDef, ast.AsyncFunctionDef, ast.ClassDef)):
                    q = prefix + n.name
                    self.defs[q] = n
                    rec(n.body, q + ".")
                elif isinstance(n, (ast.If, ast.Try, ast.With, ast.For, ast.While)):
                    for fld in ("body", "orelse", "finalbody"):
                        rec(getattr(n, fld, []) or [], prefix)
                    for h in getattr(n, "handlers", []) or []:
                        rec(h.body, prefix)

        rec(self.tree.body, "")

    def _alias_stmt(self, node):
        if isinstance(node, ast.Import):
            for a in node.names:
                if a.asname:
                    self.aliases[a.asname] = a.name
                else:
                    self.aliases[a.name.split(".")[0]] = a.name.split(".")[0]
        elif isinstance(node, ast.ImportFrom) and node.module:
            for a in node.names:
                self.aliases[a.asname or a.name] = node.module + "." + a.name

    def segment(self, node):
        return ast.get_source_segment(self.source, node) or ast.unparse(node)


class Program:
    def __init__(self, repo=None, overlay=None):
        self.repo = repo or REPO
        self.overlay = overlay or {}
        self.modules = {}
        pkgdir = os.path.join(self.repo, PKG)
        if not os.path.isdir(pkgdir):
            raise AnchorMissing(f"package directory {pkgdir} not found")
        for fn in sorted(os.listdir(pkgdir)):
            if fn.endswith(".py"):
                path = os.path.join(pkgdir, fn)
                rel = f"{PKG}/{fn}"
                if rel in self.overlay:
                    src = self.overlay[rel]
                else:
                    with open(path, encoding="utf-8") as fh:
                        src = fh.read()
                self.modules[fn[:-3]] = Module(fn[:-3], rel, src)
        self._callgraph = None

    # ------------------------------------------------------------------ lookup
    def module(self, name):
        if name not in self.modules:
            raise AnchorMissing(f"module cryocat/{name}.py not found")
        return self.modules[name]

    def lookup(self, qual):
        """'cryomotl.Motl.get_coordinates' -> (Module, node)."""
        mod, _, rest = qual.partition(".")
        m = self.module(mod)
        if rest not in m.defs:
            raise AnchorMissing(f"{qual} not found in {m.path}")
        return m, m.defs[rest]

    def has(self, qual):
        try:
            self.lookup(qual)
            return True
        except AnchorMissing:
            return False

    def func(self, qual):
        m, n = self.lookup(qual)
        if not isinstance(n, (ast.FunctionDef, ast.AsyncFunctionDef)):
            raise AnchorMissing(f"{qual} is not a function")
        return m, n

    def cls(self, qual):
        m, n = self.lookup(qual)
        if not isinstance(n, ast.ClassDef):
            raise AnchorMissing(f"{qual} is not a class")
        return m, n

    def class_attr_node(self, clsqual, attr):
        m, c = self.cls(clsqual)
        for st in c.body:
            if isinstance(st, ast.Assign):
                for t in st.targets:
                    if isinstance(t, ast.Name) and t.id == attr:
                        return m, st.value
            if isinstance(st, ast.AnnAssign) and isinstance(st.target, ast.Name) and st.target.id == attr:
                return m, st.value
        raise AnchorMissing(f"class attribute {clsqual}.{attr} not found")

    def class_attr(self, clsqual, attr):
        m, v = self.class_attr_node(clsqual, attr)
        try:
            return ast.literal_eval(v)
        except Exception as e:  # noqa
            raise AnchorMissing(f"{clsqual}.{attr} is not a literal table any more ({e})")

    def bases(self, clsqual):
        """Resolved repo-local base classes of a class, e.g. cryomotl.EmMotl -> [cryomotl.Motl]."""
        m, c = self.cls(clsqual)
        out = []
        for b in c.bases:
            d = self.resolve(m, b)
            if d and d.startswith(PKG + "."):
                out.append(d[len(PKG) + 1:])
        return out

    def mro(self, clsqual):
        out, todo = [], [clsqual]
        while todo:
            c = todo.pop(0)
            if c in out:
                continue
            out.append(c)
            try:
                todo.extend(self.bases(c))
            except AnchorMissing:
                pass
        return out

    def find_method(self, clsqual, name):
        for c in self.mro(clsqual):
            q = f"{c}.{name}"
            if self.has(q):
                return q
        return None

    # ---------------------------------------------------------------- resolve
    def resolve(self, mod, node):
        """Canonical dotted name of a Name/Attribute chain, or None.
        `np.linalg.norm` -> numpy.linalg.norm ; `rot.from_euler` -> scipy.spatial.transform.Rotation.from_euler ;
        `geom.f` -> cryocat.geom.f ; a module-level def `f` -> cryocat.<mod>.f"""
        if isinstance(mod, str):
            mod = self.module(mod)
        parts = []
        n = node
        while isinstance(n, ast.Attribute):
            parts.append(n.attr)
            n = n.value
        if not isinstance(n, ast.Name):
            return None
        parts.append(n.id)
        parts.reverse()
        head = parts[0]
        if head in mod.aliases:
            base = mod.aliases[head]
        elif head in mod.defs:
            base = f"{PKG}.{mod.name}.{head}"
        else:
            return None
        return ".".join([base] + parts[1:])

    def repo_qual(self, dotted):
        """cryocat.geom.f -> 'geom.f' if it exists in the program, else None."""
        if dotted and dotted.startswith(PKG + "."):
            q = dotted[len(PKG) + 1:]
            if self.has(q):
                return q
        return None

    def implementation(self, qual, limit=4):
        """follow thin delegations: a function whose whole body (after the docstring) is `return [list|tuple](callee(<its own parameters>))`
        is implemented by the callee.  -> qualified name of the function that holds the code (qual itself when it does)"""
        for _ in range(limit):
            m, fn = self.func(qual)
            body = [st for st in fn.body if not (isinstance(st, ast.Expr) and isinstance(st.value, ast.Constant) and isinstance(st.value.value, str))]
            if len(body) != 1 or not isinstance(body[0], ast.Return) or body[0].value is None:
                return qual
            e = body[0].value
            while isinstance(e, ast.Call) and isinstance(e.func, ast.Name) and e.func.id in ("list", "tuple") and len(e.args) == 1 and not e.keywords:
                e = e.args[0]
            if not isinstance(e, ast.Call):
                return qual
            params = [a.arg for a in fn.args.posonlyargs + fn.args.args + fn.args.kwonlyargs if a.arg not in ("self", "cls")]
            passed = [a.id for a in e.args if isinstance(a, ast.Name)] + [k.value.id for k in e.keywords if isinstance(k.value, ast.Name)]
            if len(passed) != len(e.args) + len(e.keywords) or sorted(passed) != sorted(params):
                return qual
            d = self.resolve(m, e.func)
            t = self.repo_qual(d) if d else None
            if t is None and isinstance(e.func, ast.Attribute) and isinstance(e.func.value, ast.Name) and e.func.value.id in ("self", "cls"):
                owner = self.enclosing_class(qual)
                t = self.find_method(owner, e.func.attr) if owner else None
            if t is None or t == qual:
                return qual
            try:
                self.func(t)
            except AnchorMissing:
                return qual
            qual = t
        return qual

    # -------------------------------------------------------------- utilities
    def enclosing_class(self, qual):
        parts = qual.split(".")
        for i in range(len(parts) - 1, 1, -1):
            q = ".".join(parts[:i])
            try:
                self.cls(q)
                return q
            except AnchorMissing:
                continue
        return None

    def functions(self):
        for mn, m in self.modules.items():
            for q, n in m.defs.items():
                if isinstance(n, (ast.FunctionDef, ast.AsyncFunctionDef)):
                    yield f"{mn}.{q}", m, n

    def digest(self):
        h = hashlib.sha256()
        for mn in sorted(self.modules):
            h.update(self.modules[mn].source.encode())
        return h.hexdigest()[:16]

    # -------------------------------------------------------------- call graph
    def callgraph(self):
        """qualname -> set of callee qualnames (repo-local, resolved)."""
        if self._callgraph is not None:
            return self._callgraph
        g = {}
        for q, m, fn in self.functions():
            callees = set()
            owner = self.enclosing_class(q)
            for node in ast.walk(fn):
                if not isinstance(node, ast.Call):
                    continue
                f = node.func
                tgt = None
                d = self.resolve(m, f)
                if d:
                    tgt = self.repo_qual(d)
                    if tgt is None and d.startswith(PKG + "."):
                        # Class.method through hierarchy
                        bits = d[len(PKG) + 1:].split(".")
                        if len(bits) >= 3:
                            cq = ".".join(bits[:-1])
                            if self.has(cq):
                                tgt = self.find_method(cq, bits[-1])
                    if tgt is not None:
                        try:
                            _, tn = self.lookup(tgt)
                            if isinstance(tn, ast.ClassDef):
                                init = self.find_method(tgt, "__init__")
                                if init:
                                    callees.add(init)
                                tgt = None
                                continue
                        except AnchorMissing:
                            pass
                if tgt is None and isinstance(f, ast.Attribute) and isinstance(f.value, ast.Name) \
                        and f.value.id in ("self", "cls") and owner:
                    tgt = self.find_method(owner, f.attr)
                    if tgt is None:
                        # subclasses may define it
                        for cq, cm, cn in self.classes():
                            if owner in self.mro(cq) and self.has(f"{cq}.{f.attr}"):
                                callees.add(f"{cq}.{f.attr}")
                if tgt is None and isinstance(f, ast.Name):
                    # nested function of an enclosing def
                    parts = q.split(".")
                    for i in range(len(parts), 0, -1):
                        cand = ".".join(parts[:i] + [f.id])
                        if self.has(cand):
                            tgt = cand
                            break
                if tgt:
                    callees.add(tgt)
            # functions passed as values (df.apply(f))
            for node in ast.walk(fn):
                if isinstance(node, ast.Call):
                    for a in list(node.args) + [k.value for k in node.keywords]:
                        if isinstance(a, ast.Name):
                            cand = q + "." + a.id
                            if self.has(cand):
                                callees.add(cand)
            g[q] = callees
        self._callgraph = g
        return g

    def classes(self):
        for mn, m in self.modules.items():
            for q, n in m.defs.items():
                if isinstance(n, ast.ClassDef):
                    yield f"{mn}.{q}", m, n

    def reachable(self, roots, depth=None):
        g = self.callgraph()
        seen, frontier, d = set(), list(roots), 0
        while frontier and (depth is None or d <= depth):
            nxt = []
            for q in frontier:
                if q in seen:
                    continue
                seen.add(q)
                nxt.extend(g.get(q, ()))
            frontier, d = nxt, d + 1
        return seen


def norm_text(node):
    """Normalised construct text used to key findings (never line numbers)."""
    try:
        return " ".join(ast.unparse(node).split())
    except Exception:  # noqa
        return "<?>"
